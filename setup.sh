#!/bin/bash
# Offline bootstrap of the overlay venv used by every check.
# /venv (the repository's own environment) is never modified: the overlay sees its
# site-packages through a .pth line, and nauyaca is imported live from /repo/src.
set -e
cd "$(dirname "$0")"
export PIP_NO_INDEX=1
if [ ! -x .venv/bin/python ] || ! .venv/bin/python -c "import crosshair, z3, cvc5, nauyaca" 2>/dev/null; then
  rm -rf .venv
  /venv/bin/python -m venv .venv
  SP=$(.venv/bin/python -c "import sysconfig; print(sysconfig.get_paths()['purelib'])")
  echo "import site; site.addsitedir('/venv/lib/python3.12/site-packages')" > "$SP/_base.pth"
  .venv/bin/pip install -q --no-index --find-links /opt/veriftools/wheels crosshair-tool z3-solver cvc5 >/dev/null
  .venv/bin/python -c "import crosshair, z3, cvc5, nauyaca"
fi
mkdir -p evidence replays
echo "setup ok"
