"""Helpers for harnesses that drive the real GeminiServerProtocol on stub transport/loop."""
from __future__ import annotations

import nauyaca.protocol.request  # noqa: F401  (import order)
import nauyaca.server.protocol as sp
from nauyaca.protocol.response import GeminiResponse
from nauyaca.server.protocol import GeminiServerProtocol

import asyncio as _asyncio
import time as _time

from vf import FixedClock, NoLog, bind
from vf.stubs import FakeAsyncio, FakeTransport, MiniLoop
from vf.symbuf import SymBuf, _is_fill

sp.logger = NoLog()
bind(sp, _time, FixedClock(), required=False)


class SymValueError(ValueError):
    """ValueError whose ``str()`` runs at Python level.

    BaseException.__str__ is C code and would concretise a symbolic message; nauyaca builds
    its 59 metas with ``str(e)``.  Same class hierarchy (``except ValueError`` still
    catches it), same text."""

    def __str__(self):
        if len(self.args) == 1 and isinstance(self.args[0], str):
            return self.args[0]
        return ValueError.__str__(self)


import nauyaca.protocol.request as _rq  # noqa: E402
import nauyaca.utils.url as _url  # noqa: E402

_url.ValueError = SymValueError
_rq.ValueError = SymValueError


def make(handler, middleware=None, upload=None, peer=("192.0.2.7", 50000), ssl_object=None):
    loop = MiniLoop()
    bind(sp, _asyncio, FakeAsyncio(loop))
    p = GeminiServerProtocol(handler, middleware, upload)
    t = FakeTransport(peer=peer, ssl_object=ssl_object)
    p.connection_made(t)
    return p, t, loop


class Spy:
    """Request handler spy: records requests, returns a fixed response."""

    def __init__(self, resp=None):
        self.calls = []
        self.resp = resp or GeminiResponse(status=20, meta="text/gemini", body="ok")

    def __call__(self, request):
        self.calls.append(request)
        return self.resp


class UploadSpy:
    def __init__(self, resp=None):
        self.calls = []
        self.resp = resp or GeminiResponse(status=20, meta="text/gemini", body="stored")

    async def handle_upload(self, request):
        self.calls.append(request)
        return self.resp


def joined(parts):
    """Concatenate recorded writes (real bytes and/or SymBuf) into one SymBuf."""
    out = SymBuf([])
    for p in parts:
        out = out + p
    return out


def wire_response(t):
    """Bytes written before the first close(), as (SymBuf, n_close, n_late)."""
    data = []
    closes = 0
    late = 0
    after_close_writes = 0
    for e in t.events:
        if e[0] == "w":
            if closes:
                after_close_writes += 1
            else:
                data.append(e[1])
        elif e[0] == "c":
            closes += 1
        elif e[0] == "late":
            late += 1
    return joined(data), closes, late + after_close_writes


def header_ok(head) -> bool:
    """head: bytes of the response before the first CRLF.  DD SP meta, 10<=DD<=69,
    meta free of CR/LF and at most 1024 bytes."""
    if len(head) < 3:
        return False
    d0 = head[0]
    d1 = head[1]
    if not (0x31 <= d0 <= 0x36 and 0x30 <= d1 <= 0x39):
        return False
    if head[2] != 0x20:
        return False
    meta = head[3:]
    if len(meta) > 1024:
        return False
    # element-wise: ``in`` / ``find`` on symbolic bytes make the engine realise every byte
    for j in range(len(meta)):
        c = meta[j]
        if c == 13 or c == 10:
            return False
    return True


def find_crlf(b) -> int:
    if isinstance(b, bytes) and type(b) is bytes:
        return b.find(b"\r\n")
    n = len(b)
    for j in range(n - 1):
        if b[j] == 13 and b[j + 1] == 10:
            return j
    return -1


def well_formed(t, expect_response=True) -> bool:
    """The C01 recogniser over a FakeTransport log.

    exactly one response then close; header well formed; body only with 2x; nothing after
    the close.  ``expect_response=False``: nothing at all may have been written.
    """
    data, closes, late = wire_response(t)
    return well_formed_data(data, closes, late, expect_response)


def well_formed_data(data, closes, late, expect_response=True) -> bool:
    """the recogniser on (bytes written before close, number of closes, writes after close)"""
    if late:
        return False
    if not expect_response:
        return len(data) == 0
    if closes < 1:
        return False
    # header = everything up to the first CRLF; it must live in non-Fill segments
    segs = data.segs
    if not segs or _is_fill(segs[0]):
        return False
    first = segs[0]
    i = find_crlf(first)
    if i < 0:
        return False
    head = first[:i]
    if not header_ok(head):
        return False
    body_len = len(data) - (i + 2)
    status_2x = head[0] == 0x32
    if body_len > 0 and not status_2x:
        return False
    return True


def wire_parts(t):
    """(status_2x: bool, body) of the bytes written before close; body is a SymBuf.  Only
    meaningful after well_formed(t) returned True."""
    data, closes, late = wire_response(t)
    first = data.segs[0]
    i = find_crlf(first)
    head2x = first[0] == 0x32
    _, body = data.cut(i + 2)
    return head2x, body


def bytes_equal(a, b) -> bool:
    """element-wise equality of two byte strings (either may be symbolic)"""
    if len(a) != len(b):
        return False
    for j in range(len(b)):
        if a[j] != b[j]:
            return False
    return True
