"""Harness helper: the real TLSServerProtocol + TLSTransportWrapper over StubTLSConn."""
from __future__ import annotations

import nauyaca.protocol.request  # noqa: F401
import nauyaca.server.protocol as sp
import nauyaca.server.tls_protocol as tp
from nauyaca.server.protocol import GeminiServerProtocol
from nauyaca.server.tls_protocol import TLSServerProtocol

import vf.server  # noqa: F401  (logger/clock/ValueError shims)
import asyncio as _asyncio

from vf import NoLog, bind
from vf.stubs import FakeAsyncio, FakeTransport, MiniLoop
from vf.tls import StubSSLModule, StubTLSConn

tp.logger = NoLog()
SSL_STUB = StubSSLModule()
tp.SSL = SSL_STUB
tp.get_peer_certificate_from_connection = lambda conn: conn.get_peer_certificate()
tp.x509_to_cryptography = lambda c: c


def make_tls(handler, middleware=None, upload=None, conn=None, peer=("192.0.2.7", 50000), high_water=None):
    loop = MiniLoop()
    fa = FakeAsyncio(loop)
    bind(sp, _asyncio, fa)
    bind(tp, _asyncio, fa, required=False)
    conn = conn or StubTLSConn()
    SSL_STUB.next_conn = conn
    made = []

    def factory():
        p = GeminiServerProtocol(handler, middleware, upload)
        made.append(p)
        return p

    outer = TLSServerProtocol(factory, None)
    tcp = FakeTransport(peer=peer, high_water=high_water, protocol=outer)
    outer.connection_made(tcp)
    return outer, tcp, loop, conn, made


def feed(outer, tcp, records):
    """One TCP read carrying ``records`` (asyncio stops reading a closed transport)."""
    if tcp.closed:
        return
    outer.data_received(records)
