"""./check <ID> [--tier quick|thorough] [--only name[,name]] [--replay file] [--jobs N]

Runs every obligation of a property (props/<id>.py) in its own process, classifies the
results, replays counterexamples on concrete values before reporting, applies the
known-findings file, rewrites evidence/<ID>.json and sets the exit status:

    0  no obligation refuted (KNOWN-FINDING lines allowed)
    1  VIOLATION property=<id> replay=<path>
    3  harness error (machinery wrong; nothing it says about nauyaca is to be believed)
"""
from __future__ import annotations

import argparse
import hashlib
import importlib
import json
import os
import subprocess
import sys
import time
from concurrent.futures import ThreadPoolExecutor

HERE = os.path.dirname(os.path.dirname(os.path.abspath(__file__)))
PY = sys.executable
REPO_SRC = "/repo/src/nauyaca"


def _run_worker(args, env_extra, hard_timeout):
    env = dict(os.environ)
    env.update(env_extra)
    t0 = time.time()
    try:
        p = subprocess.run([PY, "-m", "vf.worker"] + [str(a) for a in args], cwd=HERE, env=env,
                           capture_output=True, text=True, timeout=hard_timeout)
    except subprocess.TimeoutExpired:
        return {"state": "TIMEOUT", "message": "hard timeout %ss" % hard_timeout,
                "wall": round(time.time() - t0, 2), "paths": 0}
    lines = [ln for ln in p.stdout.strip().splitlines() if ln.startswith("{")]
    if not lines:
        return {"state": "HARNESS_ERROR", "message": "worker produced no result (rc=%s)" % p.returncode,
                "trace": (p.stderr or "")[-2000:], "wall": round(time.time() - t0, 2), "paths": 0}
    try:
        res = json.loads(lines[-1])
    except json.JSONDecodeError:
        return {"state": "HARNESS_ERROR", "message": "unparsable worker output", "trace": p.stdout[-500:],
                "paths": 0, "wall": round(time.time() - t0, 2)}
    if p.returncode != 0 and "state" not in res:
        res["state"] = "HARNESS_ERROR"
    return res


def _sha(path):
    try:
        with open(path, "rb") as f:
            return hashlib.sha256(f.read()).hexdigest()[:16]
    except OSError:
        return "missing"


def _job(modname, ob, tier):
    """Run main analysis + reachability twin of one obligation; return raw results."""
    budget = ob.budget(tier) * float(os.environ.get("VF_BUDGET_SCALE", "1"))
    hard = budget * 1.6 + 90
    env = {"VERIF_TIER": tier}
    out = {}
    with ThreadPoolExecutor(max_workers=2) as ex:
        fm = ex.submit(_run_worker, ["check", modname, ob.name, budget], env, hard)
        ft = None
        if ob.twin and ob.kind == "crosshair":
            tenv = dict(env)
            tenv["VF_TWIN"] = "1"
            ft = ex.submit(_run_worker, ["check", modname, ob.name, min(budget, 90)], tenv,
                           min(budget, 90) * 1.6 + 90)
        out["main"] = fm.result()
        out["twin"] = ft.result() if ft else None
    return out


def _replay(modname, ob, call, tier, real=False, no_exclude=False):
    env = {"VERIF_TIER": tier}
    if no_exclude:
        env["VF_NO_EXCLUDE"] = "1"
    args = ["replay", modname, ob.name, call]
    if real:
        args.append("--real")
    return _run_worker(args, env, 600)


def classify(modname, ob, raw, tier):
    """-> dict(verdict=confirmed|refuted|inconclusive|harness-error, ...)"""
    m = raw["main"]
    t = raw.get("twin")
    st = m.get("state")
    rec = {
        "obligation": ob.name, "kind": ob.kind, "engine_state": st, "paths": m.get("paths", 0),
        "solver_wall_s": m.get("wall", 0), "budget_s": ob.budget(tier),
        "message": (m.get("message") or "")[:600],
    }
    for k in ("queries", "solvers", "models", "detail", "samples"):
        if k in m:
            rec[k] = m[k]
    if t is not None:
        rec["twin_state"] = t.get("state")
        rec["twin_witness"] = t.get("call")
    # ---- SMT / diff obligations report their own verdict -------------------------------
    if ob.kind in ("smt", "diff"):
        v = m.get("verdict")
        if st == "HARNESS_ERROR" or v is None:
            rec["verdict"] = "harness-error"
            rec["trace"] = m.get("trace", "")[-800:]
            return rec
        rec["verdict"] = v
        if v == "refuted":
            rec["call"] = m.get("call")
            rec["replay_l1"] = m.get("replay", {"reproduced": True, "detail": "replayed inside the obligation"})
            if not rec["replay_l1"].get("reproduced"):
                rec["verdict"] = "harness-error"
        return rec
    # ---- CrossHair obligations -----------------------------------------------------------
    if st in ("HARNESS_ERROR", "SYNTAX_ERR", "IMPORT_ERR", "NO_CONDITIONS"):
        rec["verdict"] = "harness-error"
        rec["trace"] = m.get("trace", "")[-800:]
        return rec
    if st in ("POST_FAIL", "EXEC_ERR", "POST_ERR"):
        if "HarnessError" in (m.get("message") or ""):
            rec["verdict"] = "harness-error"
            return rec
        call = m.get("call")
        if not call:
            rec["verdict"] = "harness-error"
            rec["message"] += " [no call expression in counterexample]"
            return rec
        rec["call"] = call
        r1 = _replay(modname, ob, call, tier)
        rec["replay_l1"] = r1
        if r1.get("harness_error"):
            rec["verdict"] = "harness-error"
            return rec
        if not r1.get("reproduced"):
            # engine artefact: the concrete run does not fail
            rec["verdict"] = "harness-error"
            rec["message"] += " [counterexample did not reproduce concretely]"
            return rec
        if ob.real_replay is not None:
            r2 = _replay(modname, ob, call, tier, real=True)
            rec["replay_l2"] = r2
            if r2.get("reproduced") is False:
                rec["verdict"] = "harness-error"
                rec["message"] += " [stub-dependent: not reproduced on the real back end]"
                return rec
        rec["verdict"] = "refuted"
        return rec
    if st == "CONFIRMED":
        if t is not None:
            ts = t.get("state")
            if ts in ("CONFIRMED", "PRE_UNSAT"):
                rec["verdict"] = "harness-error"
                rec["message"] = "vacuous: reachability twin %s" % ts
                return rec
            if ts in ("POST_FAIL",) and t.get("call"):
                # replay the twin witness through the *real* (non-twin) harness concretely
                rw = _replay(modname, ob, t["call"], tier)
                rec["twin_witness_concrete"] = rw
                if rw.get("reproduced") is True:
                    rec["verdict"] = "harness-error"
                    rec["message"] = "engine said CONFIRMED but witness %s fails concretely" % t["call"]
                    return rec
                rec["twin_live"] = True
        rec["verdict"] = "confirmed"
        return rec
    # CANNOT_CONFIRM, PRE_UNSAT, TIMEOUT, anything else
    rec["verdict"] = "inconclusive"
    if st == "PRE_UNSAT":
        rec["message"] = "unable to meet precondition (vacuous or every path timed out)"
    return rec


def main(argv=None):
    ap = argparse.ArgumentParser()
    ap.add_argument("pid")
    ap.add_argument("--tier", default=os.environ.get("VERIF_TIER", "quick"))
    ap.add_argument("--only", default="")
    ap.add_argument("--replay", default="")
    ap.add_argument("--jobs", type=int, default=int(os.environ.get("VF_JOBS", "16")))
    ap.add_argument("--no-evidence", action="store_true")
    a = ap.parse_args(argv)
    pid = a.pid.upper()
    tier = a.tier
    os.environ["VERIF_TIER"] = tier
    seed = int(os.environ.get("VERIF_SEED", "0") or 0)
    modname = "props." + pid.lower()
    sys.path.insert(0, HERE)
    t0 = time.time()

    if a.replay:
        with open(a.replay) as f:
            rp = json.load(f)
        mod = importlib.import_module(rp["module"])
        ob = [o for o in mod.OBLIGATIONS if o.name == rp["obligation"]][0]
        r = _replay(rp["module"], ob, rp["call"], tier, no_exclude=True)
        print(json.dumps(r))
        if r.get("reproduced"):
            print("VIOLATION property=%s replay=%s" % (pid, a.replay))
            return 1
        return 0

    mod = importlib.import_module(modname)
    obs = [o for o in mod.OBLIGATIONS if tier in o.tiers]
    if a.only:
        names = set(a.only.split(","))
        obs = [o for o in obs if o.name in names]
    with ThreadPoolExecutor(max_workers=max(1, a.jobs)) as ex:
        # longest budgets first: with more obligations than workers the long ones must not queue behind short ones
        futs = {o.name: ex.submit(_job, modname, o, tier) for o in sorted(obs, key=lambda o: -o.budget(tier))}
        raws = {n: f.result() for n, f in futs.items()}
    recs = [classify(modname, o, raws[o.name], tier) for o in obs]

    # ---- known findings ---------------------------------------------------------------
    from vf import known_findings
    kf = known_findings()
    kf_lines = []
    byname = {o.name: o for o in mod.OBLIGATIONS}
    for f in kf.get("findings", []):
        if f.get("property") != pid:
            continue
        obname = f["obligation"].split(".", 1)[1]
        ob = byname.get(obname)
        if ob is None or (a.only and obname not in a.only.split(",")):
            continue
        r = _replay(modname, ob, f["witness"], tier, no_exclude=True)
        f["_still_reproduces"] = bool(r.get("reproduced"))
        if r.get("reproduced"):
            kf_lines.append("KNOWN-FINDING: property=%s %s" % (pid, f["what"]))

    # ---- report ------------------------------------------------------------------------
    viol, herr = [], []
    os.makedirs(os.path.join(HERE, "replays"), exist_ok=True)
    for r in recs:
        tag = "%s.%s" % (pid, r["obligation"])
        line = "%-28s %-13s paths=%-6s %6.1fs  %s" % (tag, r["verdict"], r.get("paths", 0),
                                                    r.get("solver_wall_s", 0) or 0,
                                                    (r.get("call") or r.get("message") or "")[:110].replace("\n", " "))
        print(line)
        if r["verdict"] == "refuted":
            h = hashlib.sha256((r.get("call") or "").encode()).hexdigest()[:10]
            path = os.path.join(HERE, "replays", "%s-%s-%s.json" % (pid, r["obligation"], h))
            with open(path, "w") as f:
                json.dump({"property": pid, "module": modname, "obligation": r["obligation"],
                           "call": r.get("call"), "message": r.get("message"),
                           "replay_l1": r.get("replay_l1"), "replay_l2": r.get("replay_l2")}, f, indent=1)
            r["replay_file"] = path
            viol.append((r, path))
        elif r["verdict"] == "harness-error":
            herr.append(r)
            if r.get("trace"):
                print("    trace:", r["trace"][-600:].replace("\n", "\n    "))
    for ln in kf_lines:
        print(ln)

    wall = round(time.time() - t0, 2)
    if not a.no_evidence and not a.only:
        write_evidence(pid, mod, obs, recs, tier, seed, wall, kf_lines, viol)
    for r, path in viol:
        print("VIOLATION property=%s replay=%s" % (pid, path))
    if viol:
        return 1
    if herr:
        print("HARNESS-ERROR in %d obligation(s): results not to be believed" % len(herr))
        return 3
    return 0


def write_evidence(pid, mod, obs, recs, tier, seed, wall, kf_lines, viol):
    meta = getattr(mod, "META", {})
    files = {}
    for rel in meta.get("files", []):
        files[rel] = _sha(os.path.join("/repo", rel))
    per = []
    samples = []
    confirmed_live = 0
    witnesses = set()
    evaluations = 0
    solver_s = 0.0
    for o, r in zip(obs, recs):
        evaluations += int(r.get("paths", 0) or 0)
        solver_s += float(r.get("solver_wall_s", 0) or 0)
        if r["verdict"] == "confirmed" and (r.get("twin_live") or o.kind in ("smt", "diff")):
            confirmed_live += 1
        if r.get("twin_witness") and r.get("twin_live"):
            witnesses.add(r["twin_witness"])
        if r.get("call") and r["verdict"] == "refuted":
            witnesses.add(r["call"])
        for s in r.get("samples", []) or []:
            witnesses.add(json.dumps(s, sort_keys=True, default=str))
        per.append({
            "obligation": "%s.%s" % (pid, o.name), "kind": o.kind, "verdict": r["verdict"],
            "engine_state": r.get("engine_state"), "paths_or_queries": r.get("paths", 0),
            "solver_wall_s": r.get("solver_wall_s"), "budget_s": r.get("budget_s"),
            "symbolic": o.symbolic, "enum": o.enum, "functions": o.functions, "stubs": o.stubs,
            "outside_claim": o.outside, "twin": r.get("twin_state"), "twin_witness": r.get("twin_witness"),
            "counterexample": r.get("call"), "replay_l1": r.get("replay_l1"), "replay_l2": r.get("replay_l2"),
            "note": o.note, "message": r.get("message") if r["verdict"] != "confirmed" else "",
            **({"solvers": r["solvers"]} if "solvers" in r else {}),
        })
        if r.get("twin_witness"):
            samples.append({"obligation": o.name, "witness_inside_bounds": r["twin_witness"]})
        elif r.get("call"):
            samples.append({"obligation": o.name, "counterexample": r["call"]})
        for s in (r.get("samples") or [])[:3]:
            samples.append({"obligation": o.name, "sample": s})
    if not samples:
        samples = [{"obligation": o.name, "symbolic": o.symbolic} for o in obs[:3]]
    n_conf = sum(1 for r in recs if r["verdict"] == "confirmed")
    n_inc = sum(1 for r in recs if r["verdict"] == "inconclusive")
    ev = {
        "property_id": pid, "tier": tier, "seed": seed,
        "level": meta.get("level", "model_checking"),
        "coverage": {
            "evaluations": max(1, evaluations),
            "distinct_nontrivial": confirmed_live + len(witnesses),
            "rule": ("evaluations = symbolic paths explored by CrossHair plus SMT queries discharged (each path/query "
                     "stands for every value of the symbolic variables that takes the same branches). "
                     "distinct_nontrivial = obligations confirmed over all paths whose reachability twin was refuted "
                     "(so the assertion is reached inside the bounds) + distinct witnesses / counterexamples that were "
                     "replayed on concrete values against the real code."),
            "samples": samples[:12],
            "obligations": len(recs),
            "discharged": n_conf,
            "inconclusive": n_inc,
            "refuted": len(viol),
            "known_findings_reported": kf_lines,
            "exhaustive": False,
            "explanation": meta.get("explanation", ""),
            "solver_time_s": round(solver_s, 2),
            "source_hashes": files,
            "per_obligation": per,
            "checker_cmd": "./check %s --tier %s" % (pid, tier),
            "trusted_base": meta.get("trusted", []),
        },
        "assumptions": meta.get("assumptions", []),
        "wall_s": wall,
        "violations": len(viol),
    }
    os.makedirs(os.path.join(HERE, "evidence"), exist_ok=True)
    with open(os.path.join(HERE, "evidence", "%s.json" % pid), "w") as f:
        json.dump(ev, f, indent=1, default=str)


if __name__ == "__main__":
    sys.exit(main())
