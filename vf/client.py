"""Harness helpers for the real client protocol classes and GeminiClient."""
from __future__ import annotations

import nauyaca.protocol.request  # noqa: F401
import nauyaca.client.session as cs
from nauyaca.client.protocol import GeminiClientProtocol, TitanClientProtocol

import asyncio as _asyncio

from vf import bind
from vf.stubs import FakeAsyncio, FakeTransport, MiniFuture, MiniLoop
from vf.symbuf import SymBuf


class ProtoRun:
    """Drive one client protocol object the way an asyncio transport would."""

    def __init__(self, titan=False, url="gemini://h/x", content=b"DATA", ssl_object=None):
        self.fut = MiniFuture()
        if titan:
            self.proto = TitanClientProtocol("titan://h/x;size=%d;mime=text/gemini" % len(content), content, self.fut)
        else:
            self.proto = GeminiClientProtocol(url, self.fut)
        self.t = FakeTransport(ssl_object=ssl_object)
        self.lost = False
        self.escaped = None          # exception that escaped connection_lost (asyncio only logs it)
        self.proto.connection_made(self.t)

    def _lose(self, exc):
        if self.lost:
            return
        self.lost = True
        try:
            self.proto.connection_lost(exc)
        except Exception as e:  # noqa: BLE001
            self.escaped = e

    def read(self, piece):
        """One data_received; asyncio semantics: no reads after close; an exception escaping
        data_received is a fatal error -> connection_lost(exc)."""
        if self.lost or self.t.closed:
            return
        try:
            self.proto.data_received(piece)
        except Exception as e:  # noqa: BLE001
            self._lose(e)
            return
        if self.t.closed:
            self._lose(None)         # the protocol closed its transport: asyncio reports the close

    def feed(self, buf, cuts=()):
        rest = buf if type(buf) is SymBuf else SymBuf([buf])
        prev = 0
        for c in cuts:
            a, rest = rest.cut(c - prev)
            prev = c
            if a:
                self.read(a)
        if rest:
            self.read(rest)

    def close_clean(self):
        if not self.lost:
            try:
                self.proto.eof_received()
            except Exception as e:  # noqa: BLE001
                self._lose(e)
                return
        self._lose(None)

    def reset(self, exc=None):
        self._lose(exc or ConnectionResetError("reset by peer"))

    # ---- outcome ------------------------------------------------------------------------
    def outcome(self):
        """("pending",) | ("result", resp) | ("error", exc)"""
        if not self.fut.done():
            return ("pending",)
        e = self.fut.exception()
        if e is not None:
            return ("error", e)
        return ("result", self.fut.result())


def install_loop():
    loop = MiniLoop()
    bind(cs, _asyncio, FakeAsyncio(loop))
    return loop
