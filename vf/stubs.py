"""Environment stubs shared by the harnesses (DESIGN.md section 3.2).

FakeTransport  - asyncio transport contract (write / close / is_closing / get_extra_info)
MiniLoop       - hand scheduler with a virtual clock; tasks, futures, timers
FakeAsyncio    - what a nauyaca module sees as ``asyncio`` while a harness runs
"""
from __future__ import annotations

import asyncio as _real_asyncio

from vf import HarnessError


class FakeTransport:
    """Records what the protocol does to its transport.

    Contract modelled (asyncio docs): after close() the transport is closing, reading stops
    (harnesses do not deliver data after close unless they model the TLS pump, which does),
    and a later write() is dropped by asyncio -- recorded here as ``late_writes`` so the
    oracle can decide what that means for the property at hand.
    """

    def __init__(self, peer=("192.0.2.7", 50000), ssl_object=None, high_water=None, protocol=None):
        self.events = []          # ("w", data) | ("c",)
        self.closed = 0
        self.late_writes = 0
        self.peer = peer
        self.ssl_object = ssl_object
        self.aborted = False
        # optional flow control (asyncio contract): once more than ``high_water`` bytes are buffered the protocol's
        # pause_writing() is called, and resume_writing() when the reader has caught up -- also while closing, before
        # connection_lost.  ``drain()`` is the reader catching up.
        self.high_water = high_water
        self.protocol = protocol
        self.buffered = 0
        self.paused = False

    def write(self, data):
        if self.closed:
            self.late_writes += 1
            self.events.append(("late", data))
            return
        self.events.append(("w", data))
        if self.high_water is not None:
            self.buffered = self.buffered + len(data)
            if self.buffered > self.high_water and not self.paused:
                self.paused = True
                self.protocol.pause_writing()

    def drain(self):
        self.buffered = 0
        if self.paused:
            self.paused = False
            self.protocol.resume_writing()

    def writelines(self, lst):
        for d in lst:
            self.write(d)

    def close(self):
        self.closed += 1
        self.events.append(("c",))

    def abort(self):
        self.aborted = True
        self.close()

    def is_closing(self):
        return self.closed > 0

    def get_extra_info(self, name, default=None):
        if name == "peername":
            return self.peer
        if name == "ssl_object":
            return self.ssl_object
        return default

    def can_write_eof(self):
        return False

    def pause_reading(self):
        pass

    def resume_reading(self):
        pass

    def set_write_buffer_limits(self, high=None, low=None):
        pass

    def get_write_buffer_size(self):
        return self.buffered

    # ---- views --------------------------------------------------------------------------
    def writes(self):
        return [e[1] for e in self.events if e[0] == "w"]


class MiniFuture:
    def __init__(self, loop=None):
        self._loop = loop
        self._done = False
        self._res = None
        self._exc = None
        self._cbs = []
        self._cancelled = False

    def done(self):
        return self._done

    def cancelled(self):
        return self._cancelled

    def cancel(self, msg=None):
        if self._done:
            return False
        self._cancelled = True
        self._done = True
        self._exc = _real_asyncio.CancelledError()
        self._fire()
        return True

    def set_result(self, r):
        if self._done:
            raise _real_asyncio.InvalidStateError("result already set")
        self._res = r
        self._done = True
        self._fire()

    def set_exception(self, e):
        if self._done:
            raise _real_asyncio.InvalidStateError("result already set")
        if isinstance(e, type):
            e = e()
        self._exc = e
        self._done = True
        self._fire()

    def result(self):
        if not self._done:
            raise _real_asyncio.InvalidStateError("not done")
        if self._exc is not None:
            raise self._exc
        return self._res

    def exception(self):
        if not self._done:
            raise _real_asyncio.InvalidStateError("not done")
        return self._exc

    def add_done_callback(self, cb, context=None):
        if self._done:
            cb(self)
        else:
            self._cbs.append(cb)

    def _fire(self):
        cbs, self._cbs = self._cbs, []
        for cb in cbs:
            cb(self)

    def __await__(self):
        while not self._done:
            yield self
        return self.result()

    __iter__ = __await__


class MiniTask(MiniFuture):
    """Drives a coroutine one ``send`` at a time.  Never runs by itself: the harness (or
    MiniLoop.run_ready) decides when, which is how schedules become symbolic."""

    def __init__(self, coro, loop):
        super().__init__(loop)
        self.coro = coro
        self.waiting_on = None
        self.started = False

    def runnable(self):
        if self._done:
            return False
        w = self.waiting_on
        return w is None or w.done()

    def step(self):
        if self._done:
            return
        self.started = True
        try:
            y = self.coro.send(None)
        except StopIteration as s:
            self._res = s.value
            self._done = True
            self._fire()
            return
        except HarnessError:
            raise
        except _real_asyncio.CancelledError as e:
            self._exc = e
            self._cancelled = True
            self._done = True
            self._fire()
            return
        except Exception as e:  # noqa: BLE001
            self._exc = e
            self._done = True
            self._fire()
            return
        if y is None:
            self.waiting_on = None       # bare yield (asyncio.sleep(0))
        elif hasattr(y, "done"):
            self.waiting_on = y
        else:
            raise HarnessError("task yielded %r" % (y,))

    def run(self):
        """Run until completion or until it blocks on something unfinished."""
        guard = 0
        while self.runnable():
            self.step()
            guard += 1
            if guard > 200:
                raise HarnessError("task does not settle")

    def cancel(self, msg=None):
        if self._done:
            return False
        try:
            self.coro.throw(_real_asyncio.CancelledError())
        except (StopIteration, _real_asyncio.CancelledError):
            pass
        except Exception:  # noqa: BLE001
            pass
        self._cancelled = True
        self._done = True
        self._exc = _real_asyncio.CancelledError()
        self._fire()
        return True


class MiniHandle:
    def __init__(self, when, cb, args):
        self.when = when
        self.cb = cb
        self.args = args
        self.cancelled_ = False
        self.fired = False

    def cancel(self):
        self.cancelled_ = True

    def cancelled(self):
        return self.cancelled_

    def armed(self):
        return not self.cancelled_ and not self.fired


class _Timeout(MiniFuture):
    pass


class MiniLoop:
    def __init__(self):
        self.tasks = []
        self.timers = []
        self.now = 0
        self.connector = None      # set by client harnesses: coroutine fn(factory, host, port, ssl, server_hostname)
        self.server_factory = None

    # ---- asyncio loop API used by nauyaca ----------------------------------------------
    def time(self):
        return self.now

    def create_task(self, coro, name=None):
        t = MiniTask(coro, self)
        self.tasks.append(t)
        return t

    def create_future(self):
        return MiniFuture(self)

    def call_later(self, delay, cb, *args):
        # whole-second delays are kept as ints: comparing a float deadline with a symbolic
        # int instant would drag the engine into its (incomplete) real-number model
        if type(delay) is float and delay.is_integer():
            delay = int(delay)
        h = MiniHandle(self.now + delay, cb, args)
        self.timers.append(h)
        return h

    def call_soon(self, cb, *args):
        return self.call_later(0, cb, *args)

    def call_at(self, when, cb, *args):
        h = MiniHandle(when, cb, args)
        self.timers.append(h)
        return h

    async def create_connection(self, factory, host=None, port=None, ssl=None, server_hostname=None, **kw):
        if self.connector is None:
            raise HarnessError("no connector installed")
        return await self.connector(factory, host, port, ssl, server_hostname)

    async def create_server(self, factory, host=None, port=None, ssl=None, **kw):
        self.server_factory = (factory, host, port, ssl)
        raise _StopServer()

    # ---- driving ------------------------------------------------------------------------
    def pending_tasks(self):
        return [t for t in self.tasks if not t.done()]

    def run_ready(self):
        """Run every runnable task until nothing can make progress."""
        progress = True
        guard = 0
        while progress:
            progress = False
            for t in list(self.tasks):
                if t.runnable():
                    t.run()
                    progress = True
            guard += 1
            if guard > 100:
                raise HarnessError("loop does not settle")

    def armed_timers(self):
        return [h for h in self.timers if h.armed()]

    def advance(self, t):
        """Move the virtual clock to ``t`` firing due, un-cancelled timers in order."""
        while True:
            due = [h for h in self.timers if h.armed() and h.when <= t]
            if not due:
                break
            h = due[0]
            for g in due[1:]:
                if g.when < h.when:
                    h = g
            self.now = h.when if h.when > self.now else self.now
            h.fired = True
            h.cb(*h.args)
        if t > self.now:
            self.now = t


class _StopServer(BaseException):
    """Raised by MiniLoop.create_server to stop start_server after assembly."""


class FakeAsyncio:
    """Stands in for the ``asyncio`` name inside a nauyaca module."""

    def __init__(self, loop: MiniLoop):
        self._loop = loop

    def get_running_loop(self):
        return self._loop

    def get_event_loop(self):
        return self._loop

    def create_task(self, coro, name=None):
        return self._loop.create_task(coro)

    def iscoroutine(self, x):
        return _real_asyncio.iscoroutine(x)

    async def wait_for(self, aw, timeout):
        loop = self._loop
        if _real_asyncio.iscoroutine(aw):
            aw = loop.create_task(aw)
            aw.run()
        if aw.done():
            return aw.result()
        if timeout is None:
            return await aw
        gate = MiniFuture(loop)
        h = loop.call_later(timeout, lambda: (not gate.done()) and gate.set_result("timeout"))
        aw.add_done_callback(lambda f: (not gate.done()) and gate.set_result("done"))
        why = await gate
        if why == "done" or aw.done():
            h.cancel()
            return aw.result()
        if hasattr(aw, "cancel"):
            aw.cancel()
        raise TimeoutError()

    async def sleep(self, delay, result=None):
        f = MiniFuture(self._loop)
        self._loop.call_later(delay, lambda: (not f.done()) and f.set_result(result))
        await f
        return result

    def __getattr__(self, name):
        return getattr(_real_asyncio, name)


def drive(coro):
    """Run a coroutine that never blocks to completion; return (result, exception)."""
    try:
        coro.send(None)
    except StopIteration as s:
        return s.value, None
    except HarnessError:
        raise
    except Exception as e:  # noqa: BLE001
        return None, e
    raise HarnessError("coroutine suspended in drive()")
