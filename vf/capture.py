"""ServerCapture: run the REAL start_server coroutine up to loop.create_server and hand back
the protocol factory it assembled (router, default handler, middleware chain, backend)."""
from __future__ import annotations

import nauyaca.protocol.request  # noqa: F401
import nauyaca.server.middleware as mw
import nauyaca.server.protocol as sp
import nauyaca.server.server as srv
import nauyaca.server.tls_protocol as tp

import vf.server  # noqa: F401
import asyncio as _asyncio
import time as _time

from vf import FixedClock, HarnessError, NoLog, bind
from vf.stubs import FakeAsyncio, MiniLoop, _StopServer


class _Ctx:
    def __init__(self, kind, args):
        self.kind, self.args = kind, args


def capture(config, **kw):
    """-> dict(factory=callable, backend='stdlib'|'pyopenssl', loop=MiniLoop, contexts=[...])"""
    loop = MiniLoop()
    fa = FakeAsyncio(loop)
    made = []
    bind(srv, _asyncio, fa)
    bind(mw, _asyncio, fa, required=False)
    bind(sp, _asyncio, fa)
    bind(tp, _asyncio, fa, required=False)
    bind(mw, _time, FixedClock(), required=False)   # CrossHair would otherwise make time.monotonic() a symbolic float
    srv.configure_logging = lambda **k: None
    srv.get_logger = lambda name=None: NoLog()
    srv.create_server_context = lambda *a, **k: made.append(_Ctx("stdlib", (a, k))) or made[-1]
    srv.create_pyopenssl_server_context = lambda *a, **k: made.append(_Ctx("pyopenssl", (a, k))) or made[-1]
    srv._create_self_signed_context = lambda *a, **k: made.append(_Ctx("stdlib-selfsigned", (a, k))) or made[-1]
    srv._create_self_signed_pyopenssl_context = lambda *a, **k: made.append(_Ctx("pyopenssl-selfsigned", (a, k))) or made[-1]
    co = srv.start_server(config, **kw)
    try:
        co.send(None)
    except _StopServer:
        pass
    except StopIteration:
        raise HarnessError("start_server returned without creating a server")
    else:
        raise HarnessError("start_server suspended before create_server")
    if loop.server_factory is None:
        raise HarnessError("no server factory captured")
    factory, host, port, ssl_ctx = loop.server_factory
    backend = "stdlib" if ssl_ctx is not None else "pyopenssl"
    return {"factory": factory, "backend": backend, "loop": loop, "contexts": made, "ssl": ssl_ctx,
            "host": host, "port": port}


def inner_protocol(cap):
    """Instantiate the captured factory and return the GeminiServerProtocol it would serve with."""
    p = cap["factory"]()
    if cap["backend"] == "pyopenssl":
        from vf import internal
        return internal(p, "inner_protocol_factory")()
    return p
