"""ServerCapture: run the REAL start_server coroutine up to loop.create_server and hand back
the protocol factory it assembled (router, default handler, middleware chain, backend)."""
from __future__ import annotations

import nauyaca.protocol.request  # noqa: F401
import nauyaca.server.middleware as mw
import nauyaca.server.protocol as sp
import nauyaca.server.server as srv
import nauyaca.server.tls_protocol as tp

import vf.server  # noqa: F401
import asyncio as _asyncio
import ssl as _ssl
import tempfile as _tempfile
import time as _time

from vf import FixedClock, HarnessError, NoLog, bind
from vf.stubs import FakeAsyncio, MiniLoop, _StopServer


import nauyaca.security.certificates as _certs_mod  # noqa: E402
import nauyaca.security.pyopenssl_tls as _pyo_mod  # noqa: E402
import nauyaca.security.tls as _tls_mod  # noqa: E402
import nauyaca.utils.logging as _logging_mod  # noqa: E402

_REAL_GENERATE = _certs_mod.generate_self_signed_cert
_PAIR = []


def _selfsigned_pair():
    if not _PAIR:
        _PAIR.append(_REAL_GENERATE(hostname="localhost", key_size=2048, valid_days=365))
    return _PAIR[0]


_selfsigned_pair()          # generated at import time: never under the symbolic engine


class _FakeSSLContext:
    """what the self-signed stdlib branch builds when its helper cannot be short-cut by name"""
    kind = "stdlib-selfsigned"

    def __init__(self, a, k):
        self.args = (a, k)
        self.loaded = []

    def load_cert_chain(self, *a, **k):
        self.loaded.append(a)

    def __getattr__(self, name):
        raise HarnessError("fake SSLContext.%s is not modelled" % name)


class _FakeTmp:
    n = 0

    def __init__(self, suffix):
        _FakeTmp.n += 1
        self.name = "/tmp/vf-selfsigned-%d%s" % (_FakeTmp.n, suffix)

    def __enter__(self):
        return self

    def __exit__(self, *a):
        return False

    def write(self, data):
        return len(data)

    def flush(self):
        pass

    def close(self):
        pass


class _Ctx:
    def __init__(self, kind, args):
        self.kind, self.args = kind, args


def capture(config, **kw):
    """-> dict(factory=callable, backend='stdlib'|'pyopenssl', loop=MiniLoop, contexts=[...])"""
    loop = MiniLoop()
    fa = FakeAsyncio(loop)
    made = []
    bind(srv, _asyncio, fa)
    bind(mw, _asyncio, fa, required=False)
    bind(sp, _asyncio, fa)
    bind(tp, _asyncio, fa, required=False)
    bind(mw, _time, FixedClock(), required=False)   # CrossHair would otherwise make time.monotonic() a symbolic float
    # collaborators of start_server, substituted by identity (whatever the import style):
    bind(srv, _logging_mod, {"configure_logging": lambda **k: None, "get_logger": lambda name=None: NoLog()}, required=False)
    bind(srv, _tls_mod, {"create_server_context": lambda *a, **k: made.append(_Ctx("stdlib", (a, k))) or made[-1]},
         required=False)
    bind(srv, _pyo_mod, {"create_pyopenssl_server_context":
                         lambda *a, **k: made.append(_Ctx("pyopenssl", (a, k))) or made[-1]}, required=False)
    # self-signed mode: the key generation is replaced by a pair generated once (outside the engine); if the private
    # helpers still carry their names they are short-cut altogether, otherwise their real code runs on that pair
    bind(srv, _certs_mod, {"generate_self_signed_cert": lambda *a, **k: _selfsigned_pair()}, required=False)
    bind(srv, _ssl, {"SSLContext": lambda *a, **k: made.append(_FakeSSLContext(a, k)) or made[-1]}, required=False)
    bind(srv, _tempfile, {"NamedTemporaryFile": lambda *a, **k: _FakeTmp(k.get("suffix") or "")}, required=False)
    if hasattr(srv, "_create_self_signed_context"):
        srv._create_self_signed_context = lambda *a, **k: made.append(_Ctx("stdlib-selfsigned", (a, k))) or made[-1]
    if hasattr(srv, "_create_self_signed_pyopenssl_context"):
        srv._create_self_signed_pyopenssl_context = lambda *a, **k: made.append(_Ctx("pyopenssl-selfsigned", (a, k))) or made[-1]
    co = srv.start_server(config, **kw)
    try:
        co.send(None)
    except _StopServer:
        pass
    except StopIteration:
        raise HarnessError("start_server returned without creating a server")
    else:
        raise HarnessError("start_server suspended before create_server")
    if loop.server_factory is None:
        raise HarnessError("no server factory captured")
    factory, host, port, ssl_ctx = loop.server_factory
    backend = "stdlib" if ssl_ctx is not None else "pyopenssl"
    return {"factory": factory, "backend": backend, "loop": loop, "contexts": made, "ssl": ssl_ctx,
            "host": host, "port": port}


def inner_protocol(cap):
    """Instantiate the captured factory and return the GeminiServerProtocol it would serve with."""
    p = cap["factory"]()
    if cap["backend"] == "pyopenssl":
        from vf import internal
        return internal(p, "inner_protocol_factory")()
    return p
