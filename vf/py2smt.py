"""py2smt - translate a small numeric subset of Python (read from the live source with
inspect/ast on every run) into z3 terms.

Supported: assignments to locals and to attributes of named objects (``self.tokens``),
augmented assignment, ``if``/``else`` with early ``return``, arithmetic + - * /, comparisons,
``and``/``or``/``not``, ``min``/``max``/``float``/``int`` of numeric terms, calls listed in
``calls`` (e.g. ``time.monotonic``).  Anything else raises Unsupported: the obligation then
ends as a harness error, never as a silent pass.

The result of ``run_function`` is a list of leaves (path condition, environment, return
value); ``merge`` folds them into If-terms.
"""
from __future__ import annotations

import ast
import importlib
import inspect
import textwrap

import z3


class Unsupported(Exception):
    pass


_MISSING = object()


# float("inf") is modelled as a real constant larger than any quantity the obligations mention
INF = z3.Real("INF")
INF_AXIOM = INF >= z3.RealVal(10) ** 30


def fn_ast(fn):
    src = textwrap.dedent(inspect.getsource(fn))
    tree = ast.parse(src)
    node = tree.body[0]
    if not isinstance(node, (ast.FunctionDef, ast.AsyncFunctionDef)):
        raise Unsupported("not a function")
    return node


def _key(node):
    """dotted name of a Name/Attribute chain: self.tokens -> 'self.tokens'"""
    if isinstance(node, ast.Name):
        return node.id
    if isinstance(node, ast.Attribute):
        return _key(node.value) + "." + node.attr
    raise Unsupported("target %s" % ast.dump(node)[:60])


def _num(v):
    if isinstance(v, bool):
        return z3.BoolVal(v)
    if isinstance(v, (int, float)):
        return z3.RealVal(repr(v) if isinstance(v, float) else v)
    return v


def _owner_of(fn):
    """class object a plain function was defined in (via __qualname__), or None"""
    g = getattr(fn, "__globals__", {})
    parts = getattr(fn, "__qualname__", "").split(".")[:-1]
    obj = None
    for part in parts:
        if part == "<locals>":
            return None
        obj = g.get(part) if obj is None else getattr(obj, part, None)
        if obj is None:
            return None
    return obj if inspect.isclass(obj) else None


def _plain_function(obj):
    if isinstance(obj, (staticmethod, classmethod)):
        obj = obj.__func__
    return obj if inspect.isfunction(obj) else None


class Interp:
    MAX_DEPTH = 6

    def __init__(self, env, calls=None, on_unknown_name=None, fn=None, owner=None, globs=None):
        self.calls = calls or {}
        self.env0 = dict(env)
        self.on_unknown_name = on_unknown_name
        self.owner = owner if owner is not None else (_owner_of(fn) if fn is not None else None)
        self.globs = globs if globs is not None else (getattr(fn, "__globals__", {}) if fn is not None else {})
        self.depth = 0
        self.inlined = []

    # ---- calls into the code under analysis (helper methods / module functions): inlined ---------
    def _callee(self, func_node, env):
        """-> (function object, receiver key or None) when the call targets translatable nauyaca code"""
        if isinstance(func_node, ast.Attribute):
            try:
                recv = _key(func_node.value)
            except Unsupported:
                return None, None
            if recv == "self" and self.owner is not None:
                f = _plain_function(inspect.getattr_static(self.owner, func_node.attr, None))
                if f is not None:
                    return f, recv
            return None, None
        if isinstance(func_node, ast.Name):
            f = _plain_function(self.globs.get(func_node.id))
            if f is not None and str(getattr(f, "__module__", "")).startswith("nauyaca"):
                return f, None
        return None, None

    def _is_object(self, key, env):
        pre = key + "."
        for k in env:
            if k.startswith(pre):
                return True
        return False

    def inline(self, n, env):
        """Evaluate the call node ``n`` by translating the callee's body.  -> (value, env after the call)."""
        f, recv = self._callee(n.func, env)
        if f is None:
            raise Unsupported("call %s" % ast.unparse(n.func))
        if self.depth >= self.MAX_DEPTH:
            raise Unsupported("inlining depth (recursion?) at %s" % f.__qualname__)
        node = fn_ast(f)
        if isinstance(node, ast.AsyncFunctionDef):
            raise Unsupported("call of coroutine function %s" % f.__qualname__)
        a = node.args
        if a.vararg or a.kwarg or a.kwonlyargs or a.posonlyargs:
            raise Unsupported("signature of %s" % f.__qualname__)
        params = [x.arg for x in a.args]
        is_method = recv is not None and not isinstance(inspect.getattr_static(self.owner, f.__name__, None), staticmethod)
        actual = []          # (param, kind, payload)
        if is_method:
            actual.append((params[0], "obj", recv))
            params = params[1:]
        if n.keywords and any(k.arg is None for k in n.keywords):
            raise Unsupported("**kwargs in call")
        given = {}
        for prm, arg in zip(params, n.args):
            given[prm] = arg
        if len(n.args) > len(params):
            raise Unsupported("too many arguments for %s" % f.__qualname__)
        for k in n.keywords:
            given[k.arg] = k.value
        defaults = dict(zip(params[len(params) - len(a.defaults):], a.defaults)) if a.defaults else {}
        for prm in params:
            if prm in given:
                arg = given[prm]
                key = None
                if isinstance(arg, (ast.Name, ast.Attribute)):
                    try:
                        key = _key(arg)
                    except Unsupported:
                        key = None
                if key is not None and key not in env and self._is_object(key, env):
                    actual.append((prm, "obj", key))
                else:
                    actual.append((prm, "val", self.expr(arg, env)))
            elif prm in defaults:
                actual.append((prm, "val", self.expr(defaults[prm], {})))
            else:
                raise Unsupported("missing argument %s for %s" % (prm, f.__qualname__))
        # callee environment: objects are passed by prefix renaming, values by name
        cenv = {}
        back = []            # (callee prefix, caller prefix)
        for prm, kind, payload in actual:
            if kind == "val":
                cenv[prm] = payload
            else:
                pre = payload + "."
                for k, v in env.items():
                    if k.startswith(pre):
                        cenv[prm + "." + k[len(pre):]] = v
                back.append((prm + ".", pre))
        sub = Interp(cenv, self.calls, fn=f)
        if recv is not None and sub.owner is None:
            sub.owner = self.owner
        sub.depth = self.depth + 1
        leaves = sub.block(node.body, z3.BoolVal(True), cenv)
        self.inlined.append(f.__qualname__)
        self.inlined.extend(sub.inlined)
        # fold the callee's leaves: state of the passed objects, and the return value
        env2 = dict(env)
        for cpre, pre in back:
            keys = []
            for c, e, r in leaves:
                for k in e:
                    if k.startswith(cpre) and k not in keys:
                        keys.append(k)
            for k in keys:
                for c, e, r in leaves:
                    if k not in e:
                        raise Unsupported("attribute %s assigned on some paths only" % k)
                vals = [e[k] for c, e, r in leaves]
                same = all(v is vals[0] for v in vals)
                env2[pre + k[len(cpre):]] = vals[0] if same else merge(leaves, k)
        rets = [r for c, e, r in leaves]
        if all(r is _NORET or r is None for r in rets):
            value = None
        else:
            value = merge(leaves)
        return value, env2

    def _pure_call(self, n, env):
        value, env2 = self.inline(n, env)
        for k, v in env2.items():
            if k not in env or env[k] is not v:
                raise Unsupported("call with side effects inside an expression: %s" % ast.unparse(n.func))
        return value

    # ---- expressions -------------------------------------------------------------------
    def expr(self, n, env):
        if isinstance(n, ast.Constant):
            if isinstance(n.value, (int, float, bool)):
                return _num(n.value)
            if n.value is None:
                return None
            raise Unsupported("constant %r" % (n.value,))
        if isinstance(n, (ast.Name, ast.Attribute)):
            k = _key(n)
            if k in env:
                return env[k]
            const = self._constant(k)
            if const is not None:
                return const
            raise Unsupported("unknown name %s" % k)
        if isinstance(n, ast.BinOp):
            a, b = self.expr(n.left, env), self.expr(n.right, env)
            if isinstance(n.op, ast.Add):
                return a + b
            if isinstance(n.op, ast.Sub):
                return a - b
            if isinstance(n.op, ast.Mult):
                return a * b
            if isinstance(n.op, ast.Div):
                return a / b
            raise Unsupported("binop %s" % type(n.op).__name__)
        if isinstance(n, ast.UnaryOp):
            v = self.expr(n.operand, env)
            if isinstance(n.op, ast.Not):
                return z3.Not(self.truth(v))
            if isinstance(n.op, ast.USub):
                return -v
            raise Unsupported("unaryop")
        if isinstance(n, ast.BoolOp):
            vs = [self.truth(self.expr(v, env)) for v in n.values]
            return z3.And(*vs) if isinstance(n.op, ast.And) else z3.Or(*vs)
        if isinstance(n, ast.Compare):
            left = self.expr(n.left, env)
            out = []
            for op, comp in zip(n.ops, n.comparators):
                right = self.expr(comp, env)
                if isinstance(op, ast.Lt):
                    out.append(left < right)
                elif isinstance(op, ast.LtE):
                    out.append(left <= right)
                elif isinstance(op, ast.Gt):
                    out.append(left > right)
                elif isinstance(op, ast.GtE):
                    out.append(left >= right)
                elif isinstance(op, ast.Eq):
                    out.append(left == right)
                elif isinstance(op, ast.NotEq):
                    out.append(left != right)
                else:
                    raise Unsupported("compare %s" % type(op).__name__)
                left = right
            return out[0] if len(out) == 1 else z3.And(*out)
        if isinstance(n, ast.IfExp):
            return z3.If(self.truth(self.expr(n.test, env)), self.expr(n.body, env), self.expr(n.orelse, env))
        if isinstance(n, ast.Call):
            try:
                name = _key(n.func)
            except Unsupported:
                raise Unsupported("call %s" % ast.unparse(n.func)[:60])
            if name == "float" and len(n.args) == 1 and isinstance(n.args[0], ast.Constant) \
                    and str(n.args[0].value).lower() in ("inf", "+inf", "infinity"):
                return INF
            name = self._canonical(name)
            if name not in self.calls and self._callee(n.func, env)[0] is not None:
                return self._pure_call(n, env)
            args = [self.expr(a, env) for a in n.args]
            if n.keywords:
                raise Unsupported("keyword arguments in call to %s" % name)
            if name in self.calls:
                return self.calls[name](*args)
            if name == "min" and len(args) == 2:
                a, b = args
                return z3.If(b < a, b, a)          # Python: min(a, b) returns a unless b < a
            if name == "max" and len(args) == 2:
                a, b = args
                return z3.If(b > a, b, a)
            if name in ("float", "int") and len(args) == 1:
                return args[0]
            raise Unsupported("call %s" % name)
        if isinstance(n, ast.Tuple):
            return tuple(self.expr(e, env) for e in n.elts)
        raise Unsupported("expression %s" % type(n).__name__)

    def _constant(self, k):
        """numeric module-level / class-level constant of the code under analysis"""
        obj = None
        parts = k.split(".")
        if parts[0] == "self" and self.owner is not None and len(parts) == 2:
            obj = inspect.getattr_static(self.owner, parts[1], None)
        elif parts[0] in self.globs:
            obj = self.globs[parts[0]]
            for part in parts[1:]:
                if inspect.ismodule(obj) or inspect.isclass(obj):
                    obj = getattr(obj, part, None)
                else:
                    return None
        if isinstance(obj, bool) or not isinstance(obj, (int, float)):
            return None
        if obj != obj or obj in (float("inf"), float("-inf")):
            return INF if obj == float("inf") else None
        return _num(obj)

    def _canonical(self, name):
        """``monotonic`` / ``clock.monotonic`` -> ``time.monotonic`` when the module under analysis bound the name
        to that very function (import style must not matter); unknown names are returned unchanged"""
        if name in self.calls:
            return name
        parts = name.split(".")
        obj = self.globs.get(parts[0], _MISSING)
        for part in parts[1:]:
            if obj is _MISSING:
                break
            obj = getattr(obj, part, _MISSING) if (inspect.ismodule(obj) or type(obj).__name__ == "ModProxy") else _MISSING
        if obj is _MISSING:
            return name
        for cand in self.calls:
            mod, _, attr = cand.rpartition(".")
            try:
                real = getattr(importlib.import_module(mod), attr) if mod else None
            except Exception:  # noqa: BLE001
                real = None
            if real is not None and real is obj:
                return cand
        return name

    def _inlinable(self, n, env):
        if not isinstance(n, ast.Call):
            return False
        try:
            if self._canonical(_key(n.func)) in self.calls:
                return False
        except Unsupported:
            return False
        return self._callee(n.func, env)[0] is not None

    def truth(self, v):
        if z3.is_bool(v):
            return v
        if isinstance(v, bool):
            return z3.BoolVal(v)
        if z3.is_arith(v):
            return v != 0
        raise Unsupported("truth value of %r" % (v,))

    # ---- statements --------------------------------------------------------------------
    def block(self, stmts, cond, env):
        """-> list of leaves (cond, env, ret) ; ret is _NORET when the block fell through"""
        leaves = [(cond, env, _NORET)]
        for st in stmts:
            nxt = []
            for c, e, r in leaves:
                if r is not _NORET:
                    nxt.append((c, e, r))
                    continue
                nxt.extend(self.stmt(st, c, e))
            leaves = nxt
        return leaves

    def stmt(self, st, cond, env):
        if isinstance(st, ast.Expr):
            if isinstance(st.value, ast.Constant):
                return [(cond, env, _NORET)]          # docstring
            if self._inlinable(st.value, env):
                _, e2 = self.inline(st.value, env)
                return [(cond, e2, _NORET)]
            raise Unsupported("expression statement")
        if isinstance(st, ast.Assign):
            if len(st.targets) != 1:
                raise Unsupported("multiple targets")
            if self._inlinable(st.value, env):
                val, e2 = self.inline(st.value, env)
            else:
                val, e2 = self.expr(st.value, env), dict(env)
            e2[_key(st.targets[0])] = val
            return [(cond, e2, _NORET)]
        if isinstance(st, ast.AnnAssign) and st.value is not None:
            if self._inlinable(st.value, env):
                val, e2 = self.inline(st.value, env)
            else:
                val, e2 = self.expr(st.value, env), dict(env)
            e2[_key(st.target)] = val
            return [(cond, e2, _NORET)]
        if isinstance(st, ast.AugAssign):
            k = _key(st.target)
            fake = ast.BinOp(left=st.target, op=st.op, right=st.value)
            e2 = dict(env)
            e2[k] = self.expr(fake, env)
            return [(cond, e2, _NORET)]
        if isinstance(st, ast.If):
            t = self.truth(self.expr(st.test, env))
            a = self.block(st.body, z3.And(cond, t), env)
            b = self.block(st.orelse, z3.And(cond, z3.Not(t)), env) if st.orelse else [(z3.And(cond, z3.Not(t)), env, _NORET)]
            return a + b
        if isinstance(st, ast.Return):
            if st.value is not None and self._inlinable(st.value, env):
                val, e2 = self.inline(st.value, env)
                return [(cond, e2, val)]
            return [(cond, env, self.expr(st.value, env) if st.value is not None else None)]
        if isinstance(st, ast.Pass):
            return [(cond, env, _NORET)]
        raise Unsupported("statement %s" % type(st).__name__)


class _NoRet:
    def __repr__(self):
        return "<fell through>"


_NORET = _NoRet()


def run_function(fn, env, calls=None):
    node = fn_ast(fn)
    it = Interp(env, calls, fn=fn)
    return it.block(node.body, z3.BoolVal(True), dict(env))


def merge(leaves, key=None):
    """Fold leaves into one term: key=None -> return value, else env[key]."""
    def val(leaf):
        c, e, r = leaf
        if key is None:
            if r is _NORET or r is None:
                raise Unsupported("path without return value")
            return _num(r)
        return e[key]
    out = val(leaves[-1])
    for leaf in reversed(leaves[:-1]):
        out = z3.If(leaf[0], val(leaf), out)
    return out


def has_await(fn) -> bool:
    node = fn_ast(fn)
    for sub in ast.walk(node):
        if isinstance(sub, (ast.Await, ast.AsyncFor, ast.AsyncWith, ast.Yield, ast.YieldFrom)):
            return True
    return False


def _mentions(node, text):
    return text in ast.unparse(node)


def _value_var(target, it):
    src = ast.unparse(it)
    if isinstance(target, ast.Tuple) and len(target.elts) == 2 and ".items()" in src and isinstance(target.elts[1], ast.Name):
        return target.elts[1].id
    if isinstance(target, ast.Name) and ".values()" in src:
        return target.id
    raise Unsupported("iteration shape over the bucket table: for %s in %s" % (ast.unparse(target), src))


def _and(tests):
    if not tests:
        return None
    t = tests[0]
    for extra in tests[1:]:
        t = ast.BoolOp(op=ast.And(), values=[t, extra])
    return t


class Eviction:
    """Where and under which condition a function (and the helper methods it calls) drops entries of ``table``
    (e.g. ``self.buckets``).  Found by walking the live AST: a list comprehension over the table whose result is
    deleted, a ``for`` loop over the table with a guarded ``del``/``pop``, or a dict comprehension that rebuilds the
    table (kept = not evicted).  Local assignments met on the way (``now = time.monotonic()``) and the parameters of
    helper methods are evaluated, so the predicate is closed over the clock reading."""

    def __init__(self, fn, table="self.buckets", calls=None):
        self.table = table
        self.calls = calls or {}
        self.found = None          # (test ast | None, negate, value var, env, function)
        self.path = []
        it = Interp({}, self.calls, fn=fn)
        self._scan_fn(fn, {}, it.owner, 0)
        if self.found is None:
            raise Unsupported("no eviction over %s found from %s" % (table, fn.__qualname__))

    @classmethod
    def discover(cls, klass, table="self.buckets", calls=None):
        """the coroutine method of ``klass`` that evicts entries of ``table`` (whatever it is called) -> (name, Eviction)"""
        for name, f in vars(klass).items():
            if inspect.iscoroutinefunction(f):
                try:
                    return name, cls(f, table, calls)
                except Unsupported:
                    continue
        raise Unsupported("no coroutine method of %s evicts from %s" % (klass.__name__, table))

    def _scan_fn(self, fn, env, owner, depth):
        if depth > 4 or self.found is not None:
            return
        node = fn_ast(fn)
        it = Interp(env, self.calls, fn=fn, owner=owner)
        self.path.append(fn.__qualname__)
        self._scan(node.body, dict(env), it, fn, depth)

    def _scan(self, stmts, env, it, fn, depth):
        for st in stmts:
            if self.found is not None:
                return
            comp = None
            if isinstance(st, (ast.Assign, ast.AnnAssign)) and st.value is not None:
                v = st.value
                tgt = st.targets[0] if isinstance(st, ast.Assign) else st.target
                if isinstance(v, (ast.ListComp, ast.SetComp, ast.GeneratorExp)) and _mentions(v.generators[0].iter, self.table):
                    g = v.generators[0]
                    self.found = (_and(g.ifs), False, _value_var(g.target, g.iter), dict(env), fn, it.owner)
                    return
                if isinstance(v, ast.DictComp) and _mentions(v.generators[0].iter, self.table) and _mentions(tgt, self.table):
                    g = v.generators[0]
                    self.found = (_and(g.ifs), True, _value_var(g.target, g.iter), dict(env), fn, it.owner)
                    return
                if isinstance(tgt, ast.Name):
                    try:
                        env[tgt.id] = it.expr(v, env)
                    except Unsupported:
                        env.pop(tgt.id, None)
                continue
            if isinstance(st, ast.For) and _mentions(st.iter, self.table):
                var = _value_var(st.target, st.iter)
                for inner in st.body:
                    # guarded deletion, or guarded collection of the keys to delete afterwards; which of the two (or an
                    # inverted "keep" test) it is gets settled by the translation validation against the real loop
                    if isinstance(inner, ast.If) and not inner.orelse:
                        self.found = (inner.test, False, var, dict(env), fn, it.owner)
                        return
                raise Unsupported("loop over %s without a guarded statement" % self.table)
            if isinstance(st, ast.Expr):
                call = st.value.value if isinstance(st.value, ast.Await) else st.value
                if isinstance(call, ast.Call):
                    f, recv = it._callee(call.func, env)
                    if f is not None:
                        node = fn_ast(f)
                        params = [a.arg for a in node.args.args]
                        if recv is not None:
                            params = params[1:]
                        cenv = {}
                        try:
                            for prm, arg in zip(params, call.args):
                                cenv[prm] = it.expr(arg, env)
                            for kw in call.keywords:
                                cenv[kw.arg] = it.expr(kw.value, env)
                        except Unsupported:
                            pass
                        self._scan_fn(f, cenv, it.owner, depth + 1)
                continue
            for field in ("body", "orelse", "finalbody"):
                sub = getattr(st, field, None)
                if isinstance(sub, list) and sub and isinstance(sub[0], ast.stmt):
                    self._scan(sub, env, it, fn, depth)
            if isinstance(st, ast.Try):
                for h in st.handlers:
                    self._scan(h.body, env, it, fn, depth)

    def predicate(self, bucket_attrs, extra=None):
        """z3 Bool: the entry whose attributes are ``bucket_attrs`` (attr name -> term) is evicted"""
        test, negate, var, env, fn, owner = self.found
        e = dict(env)
        e.update(extra or {})
        for k, v in bucket_attrs.items():
            e[var + "." + k] = v
        if test is None:
            return z3.BoolVal(not negate)
        it = Interp(e, self.calls, fn=fn, owner=owner)
        t = it.truth(it.expr(test, e))
        self.inlined = it.inlined
        return z3.Not(t) if negate else t


def find_comprehension_filter(fn, iter_contains):
    """Return (ast of the first list-comprehension ``if`` whose iterable source contains the
    given text, generator) -- used for the eviction predicate in _cleanup_loop."""
    node = fn_ast(fn)
    for sub in ast.walk(node):
        if isinstance(sub, ast.ListComp):
            gen = sub.generators[0]
            if iter_contains in ast.unparse(gen.iter):
                if len(gen.ifs) == 0:
                    return None, gen
                test = gen.ifs[0]
                for extra in gen.ifs[1:]:
                    test = ast.BoolOp(op=ast.And(), values=[test, extra])
                return test, gen
    raise Unsupported("no comprehension over %s" % iter_contains)
