"""py2smt - translate a small numeric subset of Python (read from the live source with
inspect/ast on every run) into z3 terms.

Supported: assignments to locals and to attributes of named objects (``self.tokens``),
augmented assignment, ``if``/``else`` with early ``return``, arithmetic + - * /, comparisons,
``and``/``or``/``not``, ``min``/``max``/``float``/``int`` of numeric terms, calls listed in
``calls`` (e.g. ``time.monotonic``).  Anything else raises Unsupported: the obligation then
ends as a harness error, never as a silent pass.

The result of ``run_function`` is a list of leaves (path condition, environment, return
value); ``merge`` folds them into If-terms.
"""
from __future__ import annotations

import ast
import inspect
import textwrap

import z3


class Unsupported(Exception):
    pass


# float("inf") is modelled as a real constant larger than any quantity the obligations mention
INF = z3.Real("INF")
INF_AXIOM = INF >= z3.RealVal(10) ** 30


def fn_ast(fn):
    src = textwrap.dedent(inspect.getsource(fn))
    tree = ast.parse(src)
    node = tree.body[0]
    if not isinstance(node, (ast.FunctionDef, ast.AsyncFunctionDef)):
        raise Unsupported("not a function")
    return node


def _key(node):
    """dotted name of a Name/Attribute chain: self.tokens -> 'self.tokens'"""
    if isinstance(node, ast.Name):
        return node.id
    if isinstance(node, ast.Attribute):
        return _key(node.value) + "." + node.attr
    raise Unsupported("target %s" % ast.dump(node)[:60])


def _num(v):
    if isinstance(v, bool):
        return z3.BoolVal(v)
    if isinstance(v, (int, float)):
        return z3.RealVal(repr(v) if isinstance(v, float) else v)
    return v


class Interp:
    def __init__(self, env, calls=None, on_unknown_name=None):
        self.calls = calls or {}
        self.env0 = dict(env)
        self.on_unknown_name = on_unknown_name

    # ---- expressions -------------------------------------------------------------------
    def expr(self, n, env):
        if isinstance(n, ast.Constant):
            if isinstance(n.value, (int, float, bool)):
                return _num(n.value)
            if n.value is None:
                return None
            raise Unsupported("constant %r" % (n.value,))
        if isinstance(n, (ast.Name, ast.Attribute)):
            k = _key(n)
            if k in env:
                return env[k]
            raise Unsupported("unknown name %s" % k)
        if isinstance(n, ast.BinOp):
            a, b = self.expr(n.left, env), self.expr(n.right, env)
            if isinstance(n.op, ast.Add):
                return a + b
            if isinstance(n.op, ast.Sub):
                return a - b
            if isinstance(n.op, ast.Mult):
                return a * b
            if isinstance(n.op, ast.Div):
                return a / b
            raise Unsupported("binop %s" % type(n.op).__name__)
        if isinstance(n, ast.UnaryOp):
            v = self.expr(n.operand, env)
            if isinstance(n.op, ast.Not):
                return z3.Not(self.truth(v))
            if isinstance(n.op, ast.USub):
                return -v
            raise Unsupported("unaryop")
        if isinstance(n, ast.BoolOp):
            vs = [self.truth(self.expr(v, env)) for v in n.values]
            return z3.And(*vs) if isinstance(n.op, ast.And) else z3.Or(*vs)
        if isinstance(n, ast.Compare):
            left = self.expr(n.left, env)
            out = []
            for op, comp in zip(n.ops, n.comparators):
                right = self.expr(comp, env)
                if isinstance(op, ast.Lt):
                    out.append(left < right)
                elif isinstance(op, ast.LtE):
                    out.append(left <= right)
                elif isinstance(op, ast.Gt):
                    out.append(left > right)
                elif isinstance(op, ast.GtE):
                    out.append(left >= right)
                elif isinstance(op, ast.Eq):
                    out.append(left == right)
                elif isinstance(op, ast.NotEq):
                    out.append(left != right)
                else:
                    raise Unsupported("compare %s" % type(op).__name__)
                left = right
            return out[0] if len(out) == 1 else z3.And(*out)
        if isinstance(n, ast.IfExp):
            return z3.If(self.truth(self.expr(n.test, env)), self.expr(n.body, env), self.expr(n.orelse, env))
        if isinstance(n, ast.Call):
            name = _key(n.func)
            if name == "float" and len(n.args) == 1 and isinstance(n.args[0], ast.Constant) \
                    and str(n.args[0].value).lower() in ("inf", "+inf", "infinity"):
                return INF
            args = [self.expr(a, env) for a in n.args]
            if n.keywords:
                raise Unsupported("keyword arguments in call to %s" % name)
            if name in self.calls:
                return self.calls[name](*args)
            if name == "min" and len(args) == 2:
                a, b = args
                return z3.If(b < a, b, a)          # Python: min(a, b) returns a unless b < a
            if name == "max" and len(args) == 2:
                a, b = args
                return z3.If(b > a, b, a)
            if name in ("float", "int") and len(args) == 1:
                return args[0]
            raise Unsupported("call %s" % name)
        if isinstance(n, ast.Tuple):
            return tuple(self.expr(e, env) for e in n.elts)
        raise Unsupported("expression %s" % type(n).__name__)

    def truth(self, v):
        if z3.is_bool(v):
            return v
        if isinstance(v, bool):
            return z3.BoolVal(v)
        if z3.is_arith(v):
            return v != 0
        raise Unsupported("truth value of %r" % (v,))

    # ---- statements --------------------------------------------------------------------
    def block(self, stmts, cond, env):
        """-> list of leaves (cond, env, ret) ; ret is _NORET when the block fell through"""
        leaves = [(cond, env, _NORET)]
        for st in stmts:
            nxt = []
            for c, e, r in leaves:
                if r is not _NORET:
                    nxt.append((c, e, r))
                    continue
                nxt.extend(self.stmt(st, c, e))
            leaves = nxt
        return leaves

    def stmt(self, st, cond, env):
        if isinstance(st, ast.Expr):
            if isinstance(st.value, ast.Constant):
                return [(cond, env, _NORET)]          # docstring
            raise Unsupported("expression statement")
        if isinstance(st, ast.Assign):
            if len(st.targets) != 1:
                raise Unsupported("multiple targets")
            e2 = dict(env)
            e2[_key(st.targets[0])] = self.expr(st.value, env)
            return [(cond, e2, _NORET)]
        if isinstance(st, ast.AnnAssign) and st.value is not None:
            e2 = dict(env)
            e2[_key(st.target)] = self.expr(st.value, env)
            return [(cond, e2, _NORET)]
        if isinstance(st, ast.AugAssign):
            k = _key(st.target)
            fake = ast.BinOp(left=st.target, op=st.op, right=st.value)
            e2 = dict(env)
            e2[k] = self.expr(fake, env)
            return [(cond, e2, _NORET)]
        if isinstance(st, ast.If):
            t = self.truth(self.expr(st.test, env))
            a = self.block(st.body, z3.And(cond, t), env)
            b = self.block(st.orelse, z3.And(cond, z3.Not(t)), env) if st.orelse else [(z3.And(cond, z3.Not(t)), env, _NORET)]
            return a + b
        if isinstance(st, ast.Return):
            return [(cond, env, self.expr(st.value, env) if st.value is not None else None)]
        if isinstance(st, ast.Pass):
            return [(cond, env, _NORET)]
        raise Unsupported("statement %s" % type(st).__name__)


class _NoRet:
    def __repr__(self):
        return "<fell through>"


_NORET = _NoRet()


def run_function(fn, env, calls=None):
    node = fn_ast(fn)
    it = Interp(env, calls)
    return it.block(node.body, z3.BoolVal(True), dict(env))


def merge(leaves, key=None):
    """Fold leaves into one term: key=None -> return value, else env[key]."""
    def val(leaf):
        c, e, r = leaf
        if key is None:
            if r is _NORET or r is None:
                raise Unsupported("path without return value")
            return _num(r)
        return e[key]
    out = val(leaves[-1])
    for leaf in reversed(leaves[:-1]):
        out = z3.If(leaf[0], val(leaf), out)
    return out


def has_await(fn) -> bool:
    node = fn_ast(fn)
    for sub in ast.walk(node):
        if isinstance(sub, (ast.Await, ast.AsyncFor, ast.AsyncWith, ast.Yield, ast.YieldFrom)):
            return True
    return False


def find_comprehension_filter(fn, iter_contains):
    """Return (ast of the first list-comprehension ``if`` whose iterable source contains the
    given text, generator) -- used for the eviction predicate in _cleanup_loop."""
    node = fn_ast(fn)
    for sub in ast.walk(node):
        if isinstance(sub, ast.ListComp):
            gen = sub.generators[0]
            if iter_contains in ast.unparse(gen.iter):
                if len(gen.ifs) == 0:
                    return None, gen
                test = gen.ifs[0]
                for extra in gen.ifs[1:]:
                    test = ast.BoolOp(op=ast.And(), values=[test, extra])
                return test, gen
    raise Unsupported("no comprehension over %s" % iter_contains)
