"""ModelSQL - contract model of the ``sqlite3`` module for the statement shapes of
nauyaca/security/tofu.py (DESIGN.md 3.2).

* one durable table ``rows``: (hostname, port) -> row dict
* every connection works on a private copy created at its first write; commit() makes it
  durable, close()/rollback()/a crash discard it; other connections only see durable rows
* PRIMARY KEY (hostname, port): duplicate INSERT raises IntegrityError
* Ctl.tick() is called before every statement and every commit: the harness can make the
  process die there (Crash, a BaseException) or make SQLite fail there (OperationalError)
* an unrecognised statement is a HarnessError, never a pass
"""
from __future__ import annotations

import sqlite3 as _real

from vf import HarnessError


class Crash(BaseException):
    """the process dies here"""


class Ctl:
    def __init__(self, crash_at=0, fault_at=0):
        self.n = 0
        self.crash_at = crash_at
        self.fault_at = fault_at
        self.log = []

    def tick(self, what):
        self.n += 1
        self.log.append(what)
        if self.n == self.crash_at:
            raise Crash()
        if self.n == self.fault_at:
            raise _real.OperationalError("disk I/O error (injected)")


class DB:
    def __init__(self):
        self.rows = {}

    def snapshot(self):
        return {k: dict(v) for k, v in self.rows.items()}

    def pins(self):
        return {k: (v["fingerprint"], v["first_seen"]) for k, v in self.rows.items()}


class Row(dict):
    def __getitem__(self, k):
        if isinstance(k, int):
            return list(self.values())[k]
        return dict.__getitem__(self, k)

    def keys(self):
        return dict.keys(self)


COLS = ("hostname", "port", "fingerprint", "first_seen", "last_seen")


class Conn:
    def __init__(self, db, ctl):
        self.db, self.ctl = db, ctl
        self.pending = None
        self.row_factory = None
        self.closed = False
        self.isolation_level = ""

    def _view(self):
        return self.pending if self.pending is not None else self.db.rows

    def _w(self):
        if self.pending is None:
            self.pending = {k: dict(v) for k, v in self.db.rows.items()}
        return self.pending

    def cursor(self):
        return Cur(self)

    def execute(self, sql, params=()):
        c = Cur(self)
        c.execute(sql, params)
        return c

    def commit(self):
        if self.closed:
            raise _real.ProgrammingError("Cannot operate on a closed database.")
        self.ctl.tick("commit")
        if self.pending is not None:
            self.db.rows = self.pending
            self.pending = None

    def rollback(self):
        self.pending = None

    def close(self):
        self.pending = None
        self.closed = True

    def __enter__(self):
        return self

    def __exit__(self, et, ev, tb):
        if et is None:
            self.commit()
        else:
            self.rollback()
        return False


def _norm(sql):
    return " ".join(sql.split()).upper().rstrip(";")


class Cur:
    def __init__(self, c):
        self.c = c
        self.res = []
        self.rowcount = -1

    def _mk(self, r, cols=COLS):
        return Row((k, r[k]) for k in cols)

    def execute(self, sql, params=()):
        c = self.c
        if c.closed:
            raise _real.ProgrammingError("Cannot operate on a closed database.")
        s = _norm(sql)
        c.ctl.tick(s[:40])
        self.res = []
        if s.startswith("CREATE TABLE") or s.startswith("PRAGMA"):
            return self
        if s in ("BEGIN", "BEGIN IMMEDIATE", "BEGIN EXCLUSIVE", "BEGIN TRANSACTION", "BEGIN DEFERRED"):
            return self
        if s in ("COMMIT", "END", "END TRANSACTION"):
            if c.pending is not None:
                c.db.rows = c.pending
                c.pending = None
            return self
        if s == "ROLLBACK":
            c.pending = None
            return self
        if s.startswith("SELECT FINGERPRINT FROM KNOWN_HOSTS WHERE HOSTNAME = ? AND PORT = ?"):
            r = c._view().get((params[0], params[1]))
            self.res = [self._mk(r, ("fingerprint",))] if r else []
        elif s.startswith("SELECT HOSTNAME, PORT, FINGERPRINT, FIRST_SEEN, LAST_SEEN FROM KNOWN_HOSTS WHERE HOSTNAME = ? AND PORT = ?"):
            r = c._view().get((params[0], params[1]))
            self.res = [self._mk(r)] if r else []
        elif s.startswith("SELECT HOSTNAME, PORT, FINGERPRINT, FIRST_SEEN, LAST_SEEN FROM KNOWN_HOSTS"):
            if "WHERE" in s:
                raise HarnessError("unmodelled SQL: " + s)
            self.res = [self._mk(r) for r in c._view().values()]
        elif s.startswith("SELECT COUNT(*) FROM KNOWN_HOSTS WHERE HOSTNAME = ?"):
            n = len([1 for (h, p) in c._view() if h == params[0]])
            self.res = [Row([("COUNT(*)", n)])]
        elif s.startswith("SELECT COUNT(*) FROM KNOWN_HOSTS"):
            self.res = [Row([("COUNT(*)", len(c._view()))])]
        elif s.startswith("INSERT OR REPLACE INTO KNOWN_HOSTS") or s.startswith("REPLACE INTO KNOWN_HOSTS"):
            h, p, fp, fs, ls = params
            c._w()[(h, p)] = dict(hostname=h, port=p, fingerprint=fp, first_seen=fs, last_seen=ls)
            self.rowcount = 1
        elif s.startswith("INSERT INTO KNOWN_HOSTS"):
            h, p, fp, fs, ls = params
            w = c._w()
            if (h, p) in w:
                raise _real.IntegrityError("UNIQUE constraint failed: known_hosts.hostname, known_hosts.port")
            w[(h, p)] = dict(hostname=h, port=p, fingerprint=fp, first_seen=fs, last_seen=ls)
            self.rowcount = 1
        elif s.startswith("UPDATE KNOWN_HOSTS SET FINGERPRINT = ?, LAST_SEEN = ? WHERE HOSTNAME = ? AND PORT = ?"):
            fp, ls, h, p = params
            w = c._w()
            if (h, p) in w:
                w[(h, p)]["fingerprint"] = fp
                w[(h, p)]["last_seen"] = ls
                self.rowcount = 1
            else:
                self.rowcount = 0
        elif s.startswith("UPDATE KNOWN_HOSTS SET LAST_SEEN = ? WHERE HOSTNAME = ? AND PORT = ?"):
            ls, h, p = params
            w = c._w()
            if (h, p) in w:
                w[(h, p)]["last_seen"] = ls
                self.rowcount = 1
            else:
                self.rowcount = 0
        elif s == "DELETE FROM KNOWN_HOSTS":
            w = c._w()
            self.rowcount = len(w)
            w.clear()
        elif s.startswith("DELETE FROM KNOWN_HOSTS WHERE HOSTNAME = ? AND PORT = ?"):
            w = c._w()
            self.rowcount = 1 if w.pop((params[0], params[1]), None) is not None else 0
        elif s.startswith("DELETE FROM KNOWN_HOSTS WHERE HOSTNAME = ?"):
            w = c._w()
            ks = [k for k in w if k[0] == params[0]]
            for k in ks:
                del w[k]
            self.rowcount = len(ks)
        else:
            raise HarnessError("unmodelled SQL: " + s)
        return self

    def executemany(self, sql, seq):
        for p in seq:
            self.execute(sql, p)
        return self

    def fetchone(self):
        return self.res[0] if self.res else None

    def fetchall(self):
        return list(self.res)

    def close(self):
        pass


class FakeSqlite:
    """what nauyaca.security.tofu sees as ``sqlite3``"""

    Row = Row
    Error = _real.Error
    OperationalError = _real.OperationalError
    IntegrityError = _real.IntegrityError
    DatabaseError = _real.DatabaseError
    ProgrammingError = _real.ProgrammingError

    def __init__(self, db, ctl):
        self.db, self.ctl = db, ctl
        self.conns = []

    def connect(self, path, *a, **k):
        c = Conn(self.db, self.ctl)
        self.conns.append(c)
        return c


class FakeDatetime:
    """tofu's ``datetime`` module: a fixed instant (the value only ends up in last_seen)."""

    class timezone:
        utc = None

    class datetime:
        @staticmethod
        def now(tz=None):
            return FakeDatetime._Now()

    class _Now:
        def isoformat(self):
            return "2026-01-01T00:00:00+00:00"
