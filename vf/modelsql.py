"""ModelSQL - contract model of the ``sqlite3`` module for the statement shapes of
nauyaca/security/tofu.py (DESIGN.md 3.2).

* one durable table ``rows``: (hostname, port) -> row dict
* every connection works on a private copy created at its first write; commit() makes it
  durable, close()/rollback()/a crash discard it; other connections only see durable rows
* PRIMARY KEY (hostname, port): duplicate INSERT raises IntegrityError
* Ctl.tick() is called before every statement and every commit: the harness can make the
  process die there (Crash, a BaseException) or make SQLite fail there (OperationalError)
* an unrecognised statement is a HarnessError, never a pass
"""
from __future__ import annotations

import sqlite3 as _real

from vf import HarnessError


class Crash(BaseException):
    """the process dies here"""


class Ctl:
    def __init__(self, crash_at=0, fault_at=0):
        self.n = 0
        self.crash_at = crash_at
        self.fault_at = fault_at
        self.log = []

    def tick(self, what):
        self.n += 1
        self.log.append(what)
        if self.n == self.crash_at:
            raise Crash()
        if self.n == self.fault_at:
            raise _real.OperationalError("disk I/O error (injected)")


class DB:
    def __init__(self):
        self.rows = {}

    def snapshot(self):
        return {k: dict(v) for k, v in self.rows.items()}

    def pins(self):
        return {k: (v["fingerprint"], v["first_seen"]) for k, v in self.rows.items()}


class Row(dict):
    def __getitem__(self, k):
        if isinstance(k, int):
            return list(self.values())[k]
        return dict.__getitem__(self, k)

    def keys(self):
        return dict.keys(self)


COLS = ("hostname", "port", "fingerprint", "first_seen", "last_seen")


class Conn:
    def __init__(self, db, ctl):
        self.db, self.ctl = db, ctl
        self.pending = None
        self.row_factory = None
        self.closed = False
        self.isolation_level = ""

    def _view(self):
        return self.pending if self.pending is not None else self.db.rows

    def _w(self):
        if self.pending is None:
            self.pending = {k: dict(v) for k, v in self.db.rows.items()}
        return self.pending

    def cursor(self):
        return Cur(self)

    def execute(self, sql, params=()):
        c = Cur(self)
        c.execute(sql, params)
        return c

    def commit(self):
        if self.closed:
            raise _real.ProgrammingError("Cannot operate on a closed database.")
        self.ctl.tick("commit")
        if self.pending is not None:
            self.db.rows = self.pending
            self.pending = None

    def rollback(self):
        self.pending = None

    def close(self):
        self.pending = None
        self.closed = True

    def __enter__(self):
        return self

    def __exit__(self, et, ev, tb):
        if et is None:
            self.commit()
        else:
            self.rollback()
        return False


import re as _re

_SELECT = _re.compile(r"^SELECT (.+?) FROM KNOWN_HOSTS(?: WHERE (.+?))?(?: ORDER BY (.+))?$")
_INSERT = _re.compile(r"^(?:INSERT( OR REPLACE)?|REPLACE) INTO KNOWN_HOSTS \((.+?)\) VALUES \((.+?)\)(?: ON CONFLICT ?\(HOSTNAME, PORT\) (.+))?$")


class _Binder:
    """positional (?) or named (:name) SQL parameters"""

    def __init__(self, params):
        self.named = params if isinstance(params, dict) else None
        self.seq = None if isinstance(params, dict) else list(params)
        self.i = 0

    def value(self, tok):
        tok = tok.strip()
        if tok == "?":
            if self.seq is None or self.i >= len(self.seq):
                raise HarnessError("too few SQL parameters")
            v = self.seq[self.i]
            self.i += 1
            return v
        if tok.startswith(":"):
            if self.named is None:
                raise HarnessError("named SQL parameter with positional arguments")
            for k, v in self.named.items():
                if k.upper() == tok[1:]:
                    return v
            raise HarnessError("missing SQL parameter %s" % tok)
        raise HarnessError("unmodelled SQL value %r" % tok)

    def left(self):
        return self.seq is not None and self.i < len(self.seq)

_UPDATE = _re.compile(r"^UPDATE KNOWN_HOSTS SET (.+?)(?: WHERE (.+))?$")
_DELETE = _re.compile(r"^DELETE FROM KNOWN_HOSTS(?: WHERE (.+))?$")
_ASSIGN = _re.compile(r"^([A-Z_]+) = \?$")
_PRED = _re.compile(r"^([A-Z_]+) (=|!=|<>|LIKE) \?$")


def _where(text, params):
    """conjunction of ``col = ?`` / ``col != ?`` -> [(col, op, value)], remaining params"""
    if not text:
        return [], list(params)
    preds = []
    params = list(params)
    for part in text.split(" AND "):
        m = _PRED.match(part.strip())
        if not m or m.group(1).lower() not in COLS:
            raise HarnessError("unmodelled WHERE clause %r" % part)
        if not params:
            raise HarnessError("too few SQL parameters")
        preds.append((m.group(1).lower(), m.group(2), params.pop(0)))
    return preds, params


def _like(value, pattern):
    """SQLite LIKE: % any run, _ any one character, ASCII case-insensitive"""
    rx = "".join(".*" if ch == "%" else "." if ch == "_" else _re.escape(ch) for ch in str(pattern))
    return _re.fullmatch(rx, str(value), _re.IGNORECASE | _re.DOTALL | _re.ASCII) is not None


def _match(row, preds):
    for col, op, v in preds:
        if op == "LIKE":
            if not _like(row[col], v):
                return False
        elif (row[col] == v) != (op == "="):
            return False
    return True


def _norm(sql):
    return " ".join(sql.split()).upper().rstrip(";")


class Cur:
    def __init__(self, c):
        self.c = c
        self.res = []
        self.rowcount = -1

    def _mk(self, r, cols=COLS):
        return Row((k, r[k]) for k in cols)

    def execute(self, sql, params=()):
        c = self.c
        if c.closed:
            raise _real.ProgrammingError("Cannot operate on a closed database.")
        s = _norm(sql)
        c.ctl.tick(s[:40])
        self.res = []
        params_in = params
        params = list(params.values()) if isinstance(params, dict) else list(params)
        if s.startswith("CREATE TABLE") or s.startswith("PRAGMA") or s.startswith("CREATE INDEX"):
            return self
        if s in ("BEGIN", "BEGIN IMMEDIATE", "BEGIN EXCLUSIVE", "BEGIN TRANSACTION", "BEGIN DEFERRED"):
            return self
        if s in ("COMMIT", "END", "END TRANSACTION"):
            if c.pending is not None:
                c.db.rows = c.pending
                c.pending = None
            return self
        if s == "ROLLBACK":
            c.pending = None
            return self
        m = _SELECT.match(s)
        if m:
            cols, where, _order = m.group(1), m.group(2), m.group(3)
            preds, rest = _where(where, params)
            if rest:
                raise HarnessError("unmodelled SQL (parameters left over): " + s)
            rows = [r for r in c._view().values() if _match(r, preds)]
            if cols.strip() == "COUNT(*)":
                self.res = [Row([("COUNT(*)", len(rows))])]
            else:
                names = [x.strip().lower() for x in cols.split(",")] if cols.strip() != "*" else list(COLS)
                for nm in names:
                    if nm not in COLS:
                        raise HarnessError("unmodelled SQL column %r: %s" % (nm, s))
                self.res = [self._mk(r, names) for r in rows]
            return self
        m = _INSERT.match(s)
        if m:
            replace, cols, vals, conflict = m.group(1), [x.strip().lower() for x in m.group(2).split(",")], \
                [x.strip() for x in m.group(3).split(",")], m.group(4)
            if sorted(cols) != sorted(COLS) or len(vals) != len(cols):
                raise HarnessError("unmodelled INSERT: " + s)
            bind = _Binder(params_in)
            row = {col: bind.value(tok) for col, tok in zip(cols, vals)}
            key = (row["hostname"], row["port"])
            w = c._w()
            if key in w:
                if replace:
                    w[key] = {k: row[k] for k in COLS}
                elif conflict is None:
                    raise _real.IntegrityError("UNIQUE constraint failed: known_hosts.hostname, known_hosts.port")
                elif conflict.strip() == "DO NOTHING":
                    self.rowcount = 0
                    return self
                else:
                    mm = _re.match(r"^DO UPDATE SET (.+)$", conflict.strip())
                    if not mm:
                        raise HarnessError("unmodelled ON CONFLICT clause: " + s)
                    old = w[key]
                    newvals = {}
                    for asg in mm.group(1).split(","):
                        am = _re.match(r"^\s*([A-Z_]+) = (.+?)\s*$", asg)
                        if not am or am.group(1).lower() not in COLS:
                            raise HarnessError("unmodelled upsert assignment %r" % asg)
                        tgt, expr = am.group(1).lower(), am.group(2).strip()
                        if expr == "?" or expr.startswith(":"):
                            newvals[tgt] = bind.value(expr)
                        elif expr.startswith("EXCLUDED."):
                            newvals[tgt] = row[expr[9:].lower()]
                        elif expr.lower() in COLS:
                            newvals[tgt] = old[expr.lower()]          # bare column: the EXISTING row's value
                        else:
                            raise HarnessError("unmodelled upsert expression %r" % expr)
                    old.update(newvals)
            else:
                w[key] = {k: row[k] for k in COLS}
            if bind.left():
                raise HarnessError("unmodelled SQL (parameters left over): " + s)
            self.rowcount = 1
            return self
        m = _UPDATE.match(s)
        if m:
            sets = [x.strip() for x in m.group(1).split(",")]
            setcols = []
            for st in sets:
                mm = _ASSIGN.match(st)
                if not mm or mm.group(1).lower() not in COLS or mm.group(1).lower() in ("hostname", "port"):
                    raise HarnessError("unmodelled UPDATE assignment %r: %s" % (st, s))
                setcols.append(mm.group(1).lower())
            vals, rest = params[:len(setcols)], params[len(setcols):]
            preds, rest = _where(m.group(2), rest)
            if rest:
                raise HarnessError("unmodelled SQL (parameters left over): " + s)
            w = c._w()
            n = 0
            for r in w.values():
                if _match(r, preds):
                    for col, v in zip(setcols, vals):
                        r[col] = v
                    n += 1
            self.rowcount = n
            return self
        m = _DELETE.match(s)
        if m:
            preds, rest = _where(m.group(1), params)
            if rest:
                raise HarnessError("unmodelled SQL (parameters left over): " + s)
            w = c._w()
            ks = [k for k, r in w.items() if _match(r, preds)]
            for k in ks:
                del w[k]
            self.rowcount = len(ks)
            return self
        raise HarnessError("unmodelled SQL: " + s)

    def executemany(self, sql, seq):
        for p in seq:
            self.execute(sql, p)
        return self

    def fetchone(self):
        return self.res[0] if self.res else None

    def fetchall(self):
        return list(self.res)

    def close(self):
        pass


class FakeSqlite:
    """what nauyaca.security.tofu sees as ``sqlite3``"""

    Row = Row
    Error = _real.Error
    OperationalError = _real.OperationalError
    IntegrityError = _real.IntegrityError
    DatabaseError = _real.DatabaseError
    ProgrammingError = _real.ProgrammingError

    def __init__(self, db, ctl):
        self.db, self.ctl = db, ctl
        self.conns = []

    def connect(self, path, *a, **k):
        c = Conn(self.db, self.ctl)
        self.conns.append(c)
        return c


class _Unmodelled(type):
    def __getattr__(cls, name):
        from vf import HarnessError
        raise HarnessError("datetime.%s is not modelled" % name)


class _Now:
    def isoformat(self, *a, **k):
        return "2026-01-01T00:00:00+00:00"

    def __getattr__(self, name):
        from vf import HarnessError
        raise HarnessError("datetime instance .%s is not modelled" % name)


class FakeDatetime(metaclass=_Unmodelled):
    """tofu's clock: a fixed instant (the value only ends up in first_seen / last_seen).  Stands for the ``datetime``
    module and for the ``datetime.datetime`` class alike, whichever spelling the module under analysis imports."""

    class timezone:
        utc = None

    UTC = None
    _Now = _Now

    @staticmethod
    def now(tz=None):
        return _Now()

    @staticmethod
    def utcnow():
        return _Now()


FakeDatetime.datetime = FakeDatetime


def install_clock(mod):
    """replace every global of ``mod`` that is the datetime module or the datetime class by the fixed clock"""
    import datetime as _dt
    for name, val in list(vars(mod).items()):
        if val is _dt or val is _dt.datetime:
            setattr(mod, name, FakeDatetime)
