"""Contract stub of OpenSSL.SSL.Connection over memory BIOs (DESIGN.md 3.2, StubTLSConn).

Ciphertext is modelled at record granularity:

* inbound: the harness feeds ``bio_write`` a *list of records* (one TCP read); a record is
  ("hs",) | ("badhs",) | ("app", plaintext) | ("close",) ; an empty list is a read that
  completes no record (a record cut across reads).
* outbound: every send()/handshake flight/shutdown appends a record with a byte length
  (plaintext + RECORD_OVERHEAD); ``bio_read(n)`` hands out at most n bytes of it as a Cipher
  object.  What reached the TCP transport is reconstructed from the Cipher sizes.

send(d) accepts exactly min(len d, 16384) bytes: measured behaviour of pyOpenSSL (partial
write mode) over a memory BIO.  sendall(d) accepts everything.
"""
from __future__ import annotations

from OpenSSL import SSL as _RealSSL

from vf import HarnessError
from vf.symbuf import SymBuf

RECORD_MAX = 16384
RECORD_OVERHEAD = 22


class Cipher:
    """Opaque ciphertext handed from bio_read to transport.write."""

    def __init__(self, n):
        self.n = n

    def __len__(self):
        return self.n

    def __bool__(self):
        return True if self.n > 0 else False


class StubTLSConn:
    def __init__(self, flights=1, fail_handshake=False, peer_cert=None):
        self.flights_needed = flights
        self.fail_handshake = fail_handshake
        self.peer_cert = peer_cert
        self.inq = []                  # inbound records not yet consumed
        self.hs_seen = 0
        self.handshake_done = False
        self.out = []                  # outbound records: [kind, plaintext(SymBuf)|None, cipher_len]
        self.out_total = 0             # total ciphertext bytes produced
        self.out_read = 0              # ciphertext bytes handed out by bio_read
        self.shutdown_sent = False
        self.recv_after_close = False
        self.calls = []

    # ---- configuration no-ops ---------------------------------------------------------
    def set_accept_state(self):
        pass

    def set_connect_state(self):
        pass

    def get_peer_certificate(self):
        return self.peer_cert

    # ---- inbound ----------------------------------------------------------------------
    def bio_write(self, data):
        if not isinstance(data, list):
            raise HarnessError("StubTLSConn.bio_write expects a list of records")
        for r in data:
            self.inq.append(r)
        return len(data)

    def do_handshake(self):
        self.calls.append("do_handshake")
        if self.handshake_done:
            return
        while self.inq and self.inq[0][0] in ("hs", "badhs"):
            r = self.inq.pop(0)
            if r[0] == "badhs" or self.fail_handshake:
                raise _RealSSL.Error([("SSL routines", "", "wrong version number")])
            self.hs_seen += 1
            self._emit("hs", None, 100)          # our answering flight
            if self.hs_seen >= self.flights_needed:
                self.handshake_done = True
                return
        if self.inq and self.inq[0][0] not in ("hs", "badhs"):
            # application data / garbage where a handshake message is expected
            raise _RealSSL.Error([("SSL routines", "", "unexpected message")])
        raise _RealSSL.WantReadError()

    def recv(self, n, flags=None):
        if not self.handshake_done:
            raise _RealSSL.Error([("SSL routines", "", "handshake not done")])
        while self.inq and self.inq[0][0] == "hs":
            self.inq.pop(0)                      # post-handshake message: consumed silently
        if not self.inq:
            raise _RealSSL.WantReadError()
        r = self.inq[0]
        if r[0] == "close":
            raise _RealSSL.ZeroReturnError()
        if r[0] == "badhs":
            self.inq.pop(0)
            raise _RealSSL.Error([("SSL routines", "", "bad record mac")])
        data = r[1]
        if not isinstance(data, SymBuf):
            data = SymBuf([data])
        if len(data) <= n:
            self.inq.pop(0)
            return data
        a, b = data.cut(n)
        self.inq[0] = ("app", b)
        return a

    def pending(self):
        return 0

    # ---- outbound ---------------------------------------------------------------------
    def _emit(self, kind, plain, cipher_len):
        self.out.append([kind, plain, cipher_len])
        self.out_total = self.out_total + cipher_len

    def send(self, data, flags=None):
        self.calls.append("send")
        if self.shutdown_sent:
            raise _RealSSL.Error([("SSL routines", "", "protocol is shutdown")])
        if not self.handshake_done:
            raise _RealSSL.Error([("SSL routines", "", "handshake not done")])
        if not isinstance(data, SymBuf):
            data = SymBuf([data])
        n = len(data)
        if n == 0:
            return 0
        if n <= RECORD_MAX:
            self._emit("app", data, n + RECORD_OVERHEAD)
            return n
        a, _rest = data.cut(RECORD_MAX)
        self._emit("app", a, RECORD_MAX + RECORD_OVERHEAD)
        return RECORD_MAX

    write = send

    def sendall(self, data, flags=None):
        self.calls.append("sendall")
        if self.shutdown_sent:
            raise _RealSSL.Error([("SSL routines", "", "protocol is shutdown")])
        if not self.handshake_done:
            raise _RealSSL.Error([("SSL routines", "", "handshake not done")])
        if not isinstance(data, SymBuf):
            data = SymBuf([data])
        n = len(data)
        if n == 0:
            return 0
        # ceil(n / RECORD_MAX) records; represented as one logical record (the oracle only
        # needs the total ciphertext length and the plaintext)
        full = n // RECORD_MAX
        rest = n - full * RECORD_MAX
        recs = full + (1 if rest > 0 else 0)
        self._emit("app", data, n + recs * RECORD_OVERHEAD)
        return n

    def bio_read(self, n):
        avail = self.out_total - self.out_read
        if avail <= 0:
            raise _RealSSL.WantReadError()
        k = n if avail > n else avail
        self.out_read = self.out_read + k
        return Cipher(k)

    def shutdown(self):
        self.calls.append("shutdown")
        if not self.shutdown_sent:
            self.shutdown_sent = True
            self._emit("close", None, 24)
        return False

    # ---- oracle helpers -----------------------------------------------------------------
    def delivered(self, tcp):
        """Given the FakeTransport of the TCP side, return (plaintext SymBuf, close_seen,
        cipher_after_close) for the ciphertext that was written before tcp.close()."""
        got = 0
        after = 0
        closed = False
        for e in tcp.events:
            if e[0] == "w":
                if closed:
                    after = after + len(e[1])
                else:
                    got = got + len(e[1])
            elif e[0] == "late":
                after = after + len(e[1])
            elif e[0] == "c":
                closed = True
        plain = SymBuf([])
        close_seen = False
        off = 0
        for kind, data, clen in self.out:
            if off + clen <= got:
                if kind == "app":
                    if close_seen:
                        raise HarnessError("application record after close_notify")
                    plain = plain + data
                elif kind == "close":
                    close_seen = True
            elif off < got:
                # partially delivered record: its plaintext never decrypts at the client
                pass
            off = off + clen
        return plain, close_seen, after, (got == self.out_total)


class StubSSLModule:
    """What nauyaca.server.tls_protocol sees as ``SSL``."""

    Error = _RealSSL.Error
    WantReadError = _RealSSL.WantReadError
    WantWriteError = _RealSSL.WantWriteError
    ZeroReturnError = _RealSSL.ZeroReturnError
    SysCallError = _RealSSL.SysCallError
    Context = _RealSSL.Context

    def __init__(self):
        self.next_conn = None
        self.made = []

    def Connection(self, ctx, sock=None):
        c = self.next_conn if self.next_conn is not None else StubTLSConn()
        self.next_conn = None
        self.made.append(c)
        return c
