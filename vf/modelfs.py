"""ModelFS - an in-memory POSIX file tree behind the ``os`` / ``io`` API (DESIGN.md 3.2).

Paths are concrete strings; the *kind* of a node may be a symbolic int, so tree topology is a
solver dimension.  The API is modelled at the os/io level (lstat, stat, readlink, listdir,
scandir, mkdir, unlink, rename/replace, open/io.open, os.open/os.write/os.close/os.fsync,
tempfile.mkstemp), not at the pathlib level, so pathlib and posixpath run for real on top of it
and a different but correct implementation (temp file + os.replace, explicit open/write) runs
unchanged.  Anything the model lacks raises HarnessError.

Fault injection: the k-th *mutating* call fails (EIO / EACCES), or a write stops with ENOSPC
after ``enospc_after`` bytes of that call.
"""
from __future__ import annotations

import builtins
import errno
import io
import os
import stat as _stat

from vf import HarnessError
from vf.symbuf import SymBuf

# node kinds
ABSENT, FILE, DIR, LINK = 0, 1, 2, 3


class Node:
    __slots__ = ("kind", "content", "target")

    def __init__(self, kind, content=b"", target=None):
        self.kind, self.content, self.target = kind, content, target


class StatResult:
    def __init__(self, mode, size, ino):
        self.st_mode, self.st_size, self.st_ino = mode, size, ino
        self.st_dev, self.st_nlink, self.st_uid, self.st_gid = 1, 1, 0, 0
        self.st_mtime = self.st_atime = self.st_ctime = 1700000000.0
        self.st_mtime_ns = self.st_atime_ns = self.st_ctime_ns = 1700000000 * 10 ** 9


def _clen(c):
    return len(c)


class ModelFile:
    """file object handed out by open()/io.open()/os.fdopen()"""

    def __init__(self, fs, path, mode, encoding=None, errors=None, fd=None):
        self.fs, self.path, self.mode = fs, path, mode
        self.encoding, self.errors = encoding or "utf-8", errors or "strict"
        self.closed = False
        self.fd = fd
        self.pos = 0
        self.name = path

    def _node(self):
        n = self.fs.nodes.get(self.path)
        if n is None or n.kind != FILE:
            raise OSError(errno.EBADF, "Bad file descriptor", self.path)
        return n

    def read(self, n=-1):
        if "r" not in self.mode and "+" not in self.mode:
            raise io.UnsupportedOperation("not readable")
        self.fs.reads.append(self.path)
        data = self._node().content
        if isinstance(data, SymBuf):
            data = data if "b" in self.mode else data
        if "b" in self.mode:
            return data
        if isinstance(data, SymBuf):
            return data.decode(self.encoding, self.errors)
        return data.decode(self.encoding, self.errors)

    def write(self, data):
        if self.closed:
            raise ValueError("I/O operation on closed file.")
        if isinstance(data, memoryview):
            data = data.tobytes()
        if "b" not in self.mode:
            data = data.encode(self.encoding, self.errors)
        return self.fs._write(self.path, data)

    def flush(self):
        pass

    def fileno(self):
        if self.fd is None:
            self.fd = self.fs._new_fd(self.path)
        return self.fd

    def close(self):
        self.closed = True

    def __enter__(self):
        return self

    def __exit__(self, *a):
        self.close()
        return False

    def readable(self):
        return "r" in self.mode

    def writable(self):
        return "w" in self.mode or "a" in self.mode or "x" in self.mode or "+" in self.mode


class DirEntry:
    def __init__(self, fs, dirpath, name):
        self.fs, self.name = fs, name
        self.path = dirpath.rstrip("/") + "/" + name

    def is_dir(self, follow_symlinks=True):
        try:
            st = self.fs.stat(self.path, follow_symlinks=follow_symlinks)
        except OSError:
            return False
        return _stat.S_ISDIR(st.st_mode)

    def is_file(self, follow_symlinks=True):
        try:
            st = self.fs.stat(self.path, follow_symlinks=follow_symlinks)
        except OSError:
            return False
        return _stat.S_ISREG(st.st_mode)

    def is_symlink(self):
        return _stat.S_ISLNK(self.fs.lstat(self.path).st_mode)

    def stat(self, follow_symlinks=True):
        return self.fs.stat(self.path, follow_symlinks=follow_symlinks)

    def __fspath__(self):
        return self.path


class _Scan:
    def __init__(self, entries):
        self.entries = entries

    def __iter__(self):
        return iter(self.entries)

    def __enter__(self):
        return self

    def __exit__(self, *a):
        return False

    def close(self):
        pass


class ModelFS:
    def __init__(self, cwd="/srv"):
        self.nodes = {"/": Node(DIR)}
        self.cwd = cwd
        self.reads = []            # paths whose content was read
        self.mutations = []        # (op, path) of every mutating call that went through
        self.fail_at = 0           # the k-th mutating call fails ...
        self.fail_errno = errno.EIO
        self.enospc_after = -1     # ... or: a write stops after this many bytes with ENOSPC
        self.n_mut = 0
        self.fault_raised = False
        self.fds = {}
        self.next_fd = 100
        self.tmp_counter = 0
        self.inos = {}
        self._saved = None

    # ---- building ----------------------------------------------------------------------
    def add(self, path, kind, content=b"", target=None):
        self.nodes[path] = Node(kind, content, target)

    def mkdirs(self, *paths):
        for p in paths:
            cur = ""
            for part in [x for x in p.split("/") if x]:
                cur = cur + "/" + part
                if cur not in self.nodes:
                    self.nodes[cur] = Node(DIR)

    def snapshot(self):
        """canonical description of the tree: path -> (kind, content-bytes | link target)"""
        out = {}
        for p, n in self.nodes.items():
            k = n.kind
            if k == ABSENT:
                continue
            if k == FILE:
                c = n.content
                out[p] = ("f", c)
            elif k == DIR:
                out[p] = ("d", None)
            else:
                out[p] = ("l", n.target)
        return out

    # ---- path resolution ----------------------------------------------------------------
    def _abs(self, path):
        p = os.fspath(path)
        if isinstance(p, bytes):
            p = os.fsdecode(p)
        if "\x00" in p:
            raise ValueError("embedded null byte")
        if not p.startswith("/"):
            p = self.cwd.rstrip("/") + "/" + p
        return p

    def _get(self, p):
        n = self.nodes.get(p)
        if n is None:
            return None
        k = n.kind
        if k == ABSENT:
            return None
        return n

    def _walk(self, p, follow_last, depth=0, orig=None):
        """-> canonical path of p (every symlink followed, last one only if follow_last).
        Errors name the path the caller passed (``orig``), like the kernel's do."""
        walked = p
        if orig is None:
            orig = p
        if depth > 40:
            raise OSError(errno.ELOOP, "Too many levels of symbolic links", orig)
        if len(p) > 4096:
            raise OSError(errno.ENAMETOOLONG, "File name too long", orig)
        p = orig
        parts = [x for x in walked.split("/") if x != ""]
        trailing = walked.endswith("/") and len(parts) > 0
        cur = "/"
        i = 0
        while i < len(parts):
            name = parts[i]
            last = i == len(parts) - 1
            if len(name) > 255:
                raise OSError(errno.ENAMETOOLONG, "File name too long", p)
            dn = self._get(cur)
            if dn is None:
                raise FileNotFoundError(errno.ENOENT, "No such file or directory", p)
            if dn.kind != DIR:
                raise NotADirectoryError(errno.ENOTDIR, "Not a directory", p)
            if name == ".":
                i += 1
                continue
            if name == "..":
                cur = cur.rsplit("/", 1)[0] or "/"
                i += 1
                continue
            nxt = (cur.rstrip("/") + "/" + name)
            n = self._get(nxt)
            if n is None:
                if last:
                    return nxt, None
                raise FileNotFoundError(errno.ENOENT, "No such file or directory", p)
            if n.kind == LINK and (not last or follow_last or trailing):
                tgt = n.target
                if not tgt.startswith("/"):
                    tgt = cur.rstrip("/") + "/" + tgt
                rest = "/".join(parts[i + 1:])
                newp = tgt + ("/" + rest if rest else "") + ("/" if trailing and not rest else "")
                return self._walk(newp, follow_last, depth + 1, orig)
            cur = nxt
            i += 1
        n = self._get(cur)
        if trailing and n is not None and n.kind != DIR:
            raise NotADirectoryError(errno.ENOTDIR, "Not a directory", p)
        return cur, n

    # ---- os API: queries ----------------------------------------------------------------
    def _st(self, path, n):
        k = n.kind
        if k == DIR:
            return StatResult(_stat.S_IFDIR | 0o755, 4096, self._ino(path))
        if k == FILE:
            return StatResult(_stat.S_IFREG | 0o644, _clen(n.content), self._ino(path))
        return StatResult(_stat.S_IFLNK | 0o777, len(n.target), self._ino(path))

    def _ino(self, path):
        # (builtin hash() is modelled by the engine as an arbitrary symbolic int: never use it here)
        i = self.inos.get(path)
        if i is None:
            i = self.inos[path] = 1000 + len(self.inos)
        return i

    def stat(self, path, *, dir_fd=None, follow_symlinks=True):
        if isinstance(path, int):
            path = self.fds[path]
        p = self._abs(path)
        cp, n = self._walk(p, follow_symlinks)
        if n is None:
            raise FileNotFoundError(errno.ENOENT, "No such file or directory", p)
        return self._st(cp, n)

    def lstat(self, path, *, dir_fd=None):
        return self.stat(path, follow_symlinks=False)

    def readlink(self, path, *, dir_fd=None):
        p = self._abs(path)
        cp, n = self._walk(p, False)
        if n is None:
            raise FileNotFoundError(errno.ENOENT, "No such file or directory", p)
        if n.kind != LINK:
            raise OSError(errno.EINVAL, "Invalid argument", p)
        return n.target

    def listdir(self, path="."):
        p = self._abs(path)
        cp, n = self._walk(p, True)
        if n is None:
            raise FileNotFoundError(errno.ENOENT, "No such file or directory", p)
        if n.kind != DIR:
            raise NotADirectoryError(errno.ENOTDIR, "Not a directory", p)
        pre = cp.rstrip("/") + "/"
        out = []
        for q in list(self.nodes):
            if q != "/" and q.startswith(pre) and "/" not in q[len(pre):] and self._get(q) is not None:
                out.append(q[len(pre):])
        return out

    def scandir(self, path="."):
        names = self.listdir(path)
        return _Scan([DirEntry(self, os.fspath(path), nm) for nm in names])

    def access(self, path, mode, **k):
        try:
            self.stat(path)
            return True
        except OSError:
            return False

    def getcwd(self):
        return self.cwd

    # ---- os API: mutations --------------------------------------------------------------
    def _mut(self, op, path):
        self.n_mut += 1
        if self.n_mut == self.fail_at and self.enospc_after < 0:
            self.fault_raised = True
            raise OSError(self.fail_errno, os.strerror(self.fail_errno), path)
        self.mutations.append((op, path))

    def _parent_dir(self, cp, p):
        parent = cp.rsplit("/", 1)[0] or "/"
        pn = self._get(parent)
        if pn is None:
            raise FileNotFoundError(errno.ENOENT, "No such file or directory", p)
        if pn.kind != DIR:
            raise NotADirectoryError(errno.ENOTDIR, "Not a directory", p)

    def mkdir(self, path, mode=0o777, *, dir_fd=None):
        p = self._abs(path)
        cp, n = self._walk(p.rstrip("/") or "/", False)
        if n is not None:
            raise FileExistsError(errno.EEXIST, "File exists", p)
        self._parent_dir(cp, p)
        self._mut("mkdir", cp)
        self.nodes[cp] = Node(DIR)

    def unlink(self, path, *, dir_fd=None):
        p = self._abs(path)
        cp, n = self._walk(p, False)
        if n is None:
            raise FileNotFoundError(errno.ENOENT, "No such file or directory", p)
        if n.kind == DIR:
            raise IsADirectoryError(errno.EISDIR, "Is a directory", p)
        self._mut("unlink", cp)
        del self.nodes[cp]

    remove = unlink

    def rmdir(self, path, *, dir_fd=None):
        p = self._abs(path)
        cp, n = self._walk(p, False)
        if n is None:
            raise FileNotFoundError(errno.ENOENT, "No such file or directory", p)
        if n.kind != DIR:
            raise NotADirectoryError(errno.ENOTDIR, "Not a directory", p)
        if self.listdir(cp):
            raise OSError(errno.ENOTEMPTY, "Directory not empty", p)
        self._mut("rmdir", cp)
        del self.nodes[cp]

    def rename(self, src, dst, *, src_dir_fd=None, dst_dir_fd=None):
        sp, sn = self._walk(self._abs(src), False)
        if sn is None:
            raise FileNotFoundError(errno.ENOENT, "No such file or directory", os.fspath(src))
        dp, dn = self._walk(self._abs(dst), False)
        self._parent_dir(dp, os.fspath(dst))
        if dn is not None and dn.kind == DIR:
            raise IsADirectoryError(errno.EISDIR, "Is a directory", os.fspath(dst))
        if sn.kind == DIR:
            raise HarnessError("ModelFS: renaming directories is not modelled")
        self._mut("rename", dp)
        self.nodes[dp] = sn
        del self.nodes[sp]

    replace = rename

    def _open_node(self, p, mode):
        """common part of open(): returns canonical path; creates/truncates per mode"""
        follow = True
        cp, n = self._walk(p, follow)
        creating = any(c in mode for c in "wax")
        if n is None:
            if not creating:
                raise FileNotFoundError(errno.ENOENT, "No such file or directory", p)
            self._parent_dir(cp, p)
            self._mut("create", cp)
            self.nodes[cp] = Node(FILE, b"")
            return cp
        if n.kind == DIR:
            raise IsADirectoryError(errno.EISDIR, "Is a directory", p)
        if "x" in mode:
            raise FileExistsError(errno.EEXIST, "File exists", p)
        if "w" in mode:
            self._mut("truncate", cp)
            n.content = b""
        return cp

    def open(self, file, mode="r", buffering=-1, encoding=None, errors=None, newline=None, closefd=True, opener=None):
        if isinstance(file, int):
            return ModelFile(self, self.fds[file], mode, encoding, errors, fd=file)
        p = self._abs(file)
        cp = self._open_node(p, mode)
        return ModelFile(self, cp, mode, encoding, errors)

    def _write(self, cp, data):
        n = self._get(cp)
        if n is None or n.kind != FILE:
            raise OSError(errno.EBADF, "Bad file descriptor", cp)
        self.n_mut += 1
        if self.n_mut == self.fail_at:
            if self.enospc_after >= 0:
                k = self.enospc_after
                if k > len(data):
                    k = len(data)
                n.content = n.content + data[:k]
                self.mutations.append(("write-partial", cp))
                self.fault_raised = True
                raise OSError(errno.ENOSPC, "No space left on device", cp)
            self.fault_raised = True
            raise OSError(self.fail_errno, os.strerror(self.fail_errno), cp)
        self.mutations.append(("write", cp))
        n.content = n.content + data
        return len(data)

    # fd-level API
    def _new_fd(self, cp):
        fd = self.next_fd
        self.next_fd += 1
        self.fds[fd] = cp
        return fd

    def os_open(self, path, flags, mode=0o777, *, dir_fd=None):
        p = self._abs(path)
        m = "r"
        if flags & os.O_CREAT:
            m = "x" if flags & os.O_EXCL else ("w" if flags & os.O_TRUNC else "a")
        elif flags & os.O_TRUNC:
            m = "w"
        if (flags & os.O_NOFOLLOW):
            cp0, n0 = self._walk(p, False)
            if n0 is not None and n0.kind == LINK:
                raise OSError(errno.ELOOP, "Too many levels of symbolic links", p)
        cp = self._open_node(p, m)
        return self._new_fd(cp)

    def os_write(self, fd, data):
        return self._write(self.fds[fd], data)

    def os_close(self, fd):
        self.fds.pop(fd, None)

    def os_fsync(self, fd):
        pass

    def fdopen(self, fd, mode="r", *a, **k):
        return ModelFile(self, self.fds[fd], mode, k.get("encoding"), k.get("errors"), fd=fd)

    def mkstemp(self, suffix=None, prefix=None, dir=None, text=False):
        self.tmp_counter += 1
        d = self._abs(dir if dir is not None else "/tmp")
        cp, n = self._walk(d, True)
        if n is None or n.kind != DIR:
            raise FileNotFoundError(errno.ENOENT, "No such file or directory", d)
        name = cp.rstrip("/") + "/" + (prefix or "tmp") + "vf%04d" % self.tmp_counter + (suffix or "")
        self._mut("create", name)
        self.nodes[name] = Node(FILE, b"")
        return self._new_fd(name), name

    # ---- installation -------------------------------------------------------------------
    def install(self, extra_modules=()):
        """Scope the model to the modules that do file work for nauyaca: pathlib, posixpath,
        genericpath, tempfile, shutil and every loaded nauyaca.* module see proxies of ``os``
        and ``io`` (and a module-level ``open``); the rest of the process -- the symbolic
        engine included -- keeps the real ones."""
        import genericpath
        import pathlib
        import posixpath
        import shutil
        import sys
        import tempfile
        if self._saved is not None:
            return
        self._saved = []
        osx = _Proxy(os, {
            "stat": self.stat, "lstat": self.lstat, "readlink": self.readlink, "listdir": self.listdir,
            "scandir": self.scandir, "mkdir": self.mkdir, "unlink": self.unlink, "remove": self.unlink,
            "rmdir": self.rmdir, "rename": self.rename, "replace": self.replace, "getcwd": self.getcwd,
            "open": self.os_open, "write": self.os_write, "close": self.os_close, "fsync": self.os_fsync,
            "fdopen": self.fdopen, "access": self.access, "makedirs": self.makedirs,
            "symlink": self._unsupported("os.symlink"), "link": self._unsupported("os.link"),
            "chmod": (lambda *a, **k: None), "utime": (lambda *a, **k: None),
            "truncate": self._unsupported("os.truncate"), "walk": self._unsupported("os.walk"),
        })
        iox = _Proxy(io, {"open": self.open})
        global _NAUYACA_MODS
        if _NAUYACA_MODS is None:
            _NAUYACA_MODS = [m for n, m in list(sys.modules.items()) if n.startswith("nauyaca") and m is not None]
        mods = [pathlib, posixpath, genericpath, tempfile, shutil] + list(extra_modules) + _NAUYACA_MODS
        for m in mods:
            for attr, val in (("os", osx), ("_os", osx), ("io", iox), ("_io", None)):
                if val is not None and attr in vars(m) and vars(m)[attr] in (os, io) :
                    self._saved.append((m, attr, vars(m)[attr], True))
                    setattr(m, attr, val)
            if m.__name__.startswith("nauyaca"):
                had = "open" in vars(m)
                self._saved.append((m, "open", vars(m).get("open"), had))
                setattr(m, "open", self.open)
        # names a nauyaca module imported directly (``from tempfile import mkstemp``, ``from os import replace``)
        direct = {id(tempfile.mkstemp): self.mkstemp, id(io.open): self.open}
        for k, v in osx.__dict__["_table"].items():
            if hasattr(os, k):
                direct[id(getattr(os, k))] = v
        for m in _NAUYACA_MODS:
            for name, val in list(vars(m).items()):
                if not name.startswith("__") and id(val) in direct and callable(val):
                    self._saved.append((m, name, val, True))
                    setattr(m, name, direct[id(val)])
        self._saved.append((tempfile, "mkstemp", tempfile.mkstemp, True))
        tempfile.mkstemp = self.mkstemp

    def uninstall(self):
        if self._saved is None:
            return
        for m, attr, old, had in reversed(self._saved):
            if had:
                setattr(m, attr, old)
            else:
                try:
                    delattr(m, attr)
                except AttributeError:
                    pass
        self._saved = None

    def _unsupported(self, what):
        def f(*a, **k):
            raise HarnessError("ModelFS does not model %s" % what)
        return f

    def makedirs(self, name, mode=0o777, exist_ok=False):
        p = self._abs(name)
        parts = [x for x in p.split("/") if x]
        cur = ""
        for i, part in enumerate(parts):
            cur = cur + "/" + part
            try:
                self.mkdir(cur)
            except FileExistsError:
                if i == len(parts) - 1 and not exist_ok:
                    raise
                st = self.stat(cur)
                if not _stat.S_ISDIR(st.st_mode):
                    raise


_NAUYACA_MODS = None


class _Proxy:
    """module stand-in: listed names come from the model, everything else from the real module"""

    def __init__(self, real, table):
        self.__dict__["_real"] = real
        self.__dict__["_table"] = table

    def __getattr__(self, name):
        t = self.__dict__["_table"]
        if name in t:
            return t[name]
        return getattr(self.__dict__["_real"], name)


def materialise(snapshot, root):
    """Create the tree described by ``snapshot`` (paths are absolute model paths) under the real
    directory ``root``; symlink targets that are absolute model paths are re-rooted."""
    for p in sorted(snapshot, key=lambda q: (q.count("/"), q)):
        kind, val = snapshot[p]
        real = root + p if p != "/" else root
        if kind == "d":
            os.makedirs(real, exist_ok=True)
    for p in sorted(snapshot, key=lambda q: (q.count("/"), q)):
        kind, val = snapshot[p]
        real = root + p
        if kind == "f":
            data = val.concrete() if isinstance(val, SymBuf) else bytes(val)
            with builtins.open(real, "wb") as f:
                f.write(data)
        elif kind == "l":
            tgt = root + val if val.startswith("/") else val
            os.symlink(tgt, real)
