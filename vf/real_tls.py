"""L2 replay back end: the real TLSServerProtocol over two real PyOpenSSL memory-BIO
connections (the repository's own context factory), no sockets, no symbolic engine."""
from __future__ import annotations

import asyncio
import importlib
import os
import shutil
import tempfile

from OpenSSL import SSL


def run_tls_exchange(handler, request: bytes, middleware=None, upload=None, client_chunks=None,
                     timeout_s=5.0):
    """Returns (plaintext received by the client until EOF/close, tcp_closed: bool)."""
    import nauyaca.server.protocol as sp
    import nauyaca.server.tls_protocol as tp
    # undo harness monkey-patching if this process imported the stub helpers
    from vf import release
    release(sp, asyncio)
    release(tp, asyncio)
    tp.SSL = SSL
    pyo = importlib.import_module("nauyaca.security.pyopenssl_tls")
    tp.get_peer_certificate_from_connection = pyo.get_peer_certificate_from_connection
    tp.x509_to_cryptography = pyo.x509_to_cryptography
    from nauyaca.security.certificates import generate_self_signed_cert
    from nauyaca.server.protocol import GeminiServerProtocol
    from nauyaca.server.tls_protocol import TLSServerProtocol

    d = tempfile.mkdtemp(prefix="vf-l2-")
    try:
        cert_pem, key_pem = generate_self_signed_cert("localhost", key_size=2048)
        cf, kf = os.path.join(d, "c.pem"), os.path.join(d, "k.pem")
        open(cf, "wb").write(cert_pem)
        open(kf, "wb").write(key_pem)
        ctx = pyo.create_pyopenssl_server_context(cf, kf, request_client_cert=True)
    finally:
        pass

    class Tcp:
        def __init__(self):
            self.out = []
            self.closed = False

        def write(self, b):
            if not self.closed:
                self.out.append(bytes(b))

        def close(self):
            self.closed = True

        def is_closing(self):
            return self.closed

        def get_extra_info(self, name, default=None):
            return ("127.0.0.1", 40000) if name == "peername" else default

    async def main():
        tcp = Tcp()
        outer = TLSServerProtocol(lambda: GeminiServerProtocol(handler, middleware, upload), ctx)
        outer.connection_made(tcp)
        cctx = SSL.Context(SSL.TLS_CLIENT_METHOD)
        cctx.set_verify(SSL.VERIFY_NONE, lambda *a: True)
        cli = SSL.Connection(cctx, None)
        cli.set_connect_state()
        received = b""
        sent_request = False
        eof = False

        def pump_client_to_server():
            try:
                while True:
                    data = cli.bio_read(65536)
                    if not data:
                        break
                    if not tcp.closed:
                        outer.data_received(data)
            except SSL.WantReadError:
                pass

        def pump_server_to_client():
            moved = False
            while tcp.out:
                cli.bio_write(tcp.out.pop(0))
                moved = True
            return moved

        for _ in range(20000):
            if not sent_request:
                try:
                    cli.do_handshake()
                    cli.sendall(request)
                    sent_request = True
                except SSL.WantReadError:
                    pass
            pump_client_to_server()
            await asyncio.sleep(0)
            await asyncio.sleep(0)
            moved = pump_server_to_client()
            if sent_request:
                try:
                    while True:
                        chunk = cli.recv(65536)
                        if not chunk:
                            break
                        received += chunk
                except SSL.WantReadError:
                    pass
                except SSL.ZeroReturnError:
                    eof = True
                except SSL.Error:
                    eof = True
            if eof or (tcp.closed and not tcp.out and not moved):
                break
        return received, tcp.closed, eof

    try:
        return asyncio.run(asyncio.wait_for(main(), timeout_s * 4))
    finally:
        shutil.rmtree(d, ignore_errors=True)
