"""One obligation, one OS process.  Prints a single JSON object on the last stdout line.

    python -m vf.worker check  <module> <obligation> <timeout>
    python -m vf.worker replay <module> <obligation> <call-expression> [--real]
"""
from __future__ import annotations

import ast
import collections
import importlib
import io
import json
import os
import re
import sys
import time
import traceback


def _find(module, obname):
    mod = importlib.import_module(module)
    for ob in mod.OBLIGATIONS:
        if ob.name == obname:
            return mod, ob
    raise SystemExit("no obligation %s in %s" % (obname, module))


_CALL_RE = re.compile(r"when calling (.*?)(?: \(which returns .*\))?$", re.S)


def split_call(message: str):
    m = _CALL_RE.search(message or "")
    if not m:
        return None
    return m.group(1).strip()


def do_check(module, obname, timeout):
    mod, ob = _find(module, obname)
    t0 = time.time()
    if ob.kind in ("smt", "diff"):
        try:
            res = ob.fn()
        except Exception as e:  # noqa: BLE001
            res = {"state": "HARNESS_ERROR", "message": "%s: %s" % (type(e).__name__, e),
                   "trace": traceback.format_exc()[-1500:]}
        res.setdefault("paths", res.get("queries", 0))
        res["wall"] = round(time.time() - t0, 2)
        return res
    from crosshair.core_and_libs import analyze_function, run_checkables
    from crosshair.options import AnalysisOptionSet
    from crosshair.statespace import StateSpace

    # CrossHair's "premature realisation" heuristic re-explores concrete values of int
    # arguments in a parallel branch (good for bug hunting, costs ~3x paths before the tree
    # is exhausted).  Exhaustion is what these checks need, so the branch is never taken.
    if os.environ.get("VF_KEEP_PREMATURE") != "1" and not getattr(StateSpace, "_vf_patched", False):
        _orig_fp = StateSpace.fork_parallel

        def _fp(self, false_probability, desc=""):
            if desc.startswith("premature realize"):
                return False
            return _orig_fp(self, false_probability, desc)

        StateSpace.fork_parallel = _fp
        StateSpace._vf_patched = True

    # Every explored path starts from the import-time content of the module-level containers of the code under analysis
    # (a process-wide cache filled by an earlier path would otherwise make a counterexample depend on exploration order
    # and fail to replay).  One StateSpace is built per path.
    if not getattr(StateSpace, "_vf_reset", False):
        from vf import ModuleState
        states = [ModuleState(m) for n, m in list(sys.modules.items())
                  if n.startswith("nauyaca") and m is not None]
        _orig_init = StateSpace.__init__

        def _init(self, *a, **k):
            for st in states:
                st.restore()
            return _orig_init(self, *a, **k)

        StateSpace.__init__ = _init
        StateSpace._vf_reset = True

    stats = collections.Counter()
    opts = AnalysisOptionSet(
        per_condition_timeout=float(timeout),
        per_path_timeout=max(5.0, float(timeout) / 4),
        report_all=True,
        stats=stats,
    )
    msgs = list(run_checkables(analyze_function(ob.fn, opts)))
    wall = round(time.time() - t0, 2)
    out = {"state": "NO_CONDITIONS", "message": "", "paths": stats.get("num_paths", 0),
           "wall": wall, "exhausted": stats.get("exhaustion", 0) > 0}
    # one post-condition per harness; take the worst message
    order = ["CONFIRMED", "CANNOT_CONFIRM", "PRE_UNSAT", "POST_ERR", "EXEC_ERR", "POST_FAIL",
             "SYNTAX_ERR", "IMPORT_ERR"]
    best = None
    for m in msgs:
        name = m.state.name
        if best is None or order.index(name) > order.index(best.state.name):
            best = m
    if best is not None:
        out["state"] = best.state.name
        out["message"] = (best.message or "")[:2000]
        call = split_call(best.message or "")
        if call:
            out["call"] = call
    return out


def _eval_call(mod, ob, call):
    """Evaluate a counterexample call expression concretely (no symbolic engine)."""
    ns = dict(vars(mod))
    ns[ob.fn.__name__] = ob.fn
    tree = ast.parse(call, mode="eval")
    if not isinstance(tree.body, ast.Call):
        raise SystemExit("replay: not a call expression: %r" % call)
    return ns, tree


def do_replay(module, obname, call, real=False):
    mod, ob = _find(module, obname)
    target = ob.real_replay if real else ob.fn
    if target is None:
        return {"reproduced": None, "detail": "no real replay defined"}
    ns, tree = _eval_call(mod, ob, call)
    # rebind callee
    tree.body.func = ast.Name(id="__target__", ctx=ast.Load())
    ast.fix_missing_locations(tree)
    ns["__target__"] = target
    try:
        r = eval(compile(tree, "<replay>", "eval"), ns)
    except Exception as e:  # noqa: BLE001
        from vf import HarnessError
        if isinstance(e, HarnessError):
            return {"reproduced": None, "detail": "HarnessError: %s" % e, "harness_error": True}
        # an exception that escapes the harness counts against nauyaca only if nauyaca code is on the stack that raised
        # it; one raised by the harness itself (e.g. a private attribute a refactoring renamed) is a machinery problem
        frames = [f.filename for f in traceback.extract_tb(e.__traceback__)]
        if not any("/nauyaca/" in f for f in frames):
            return {"reproduced": None, "harness_error": True,
                    "detail": "harness raised %s: %s (no nauyaca frame on the stack)" % (type(e).__name__, str(e)[:300])}
        return {"reproduced": True, "detail": "raised %s: %s" % (type(e).__name__, str(e)[:300])}
    return {"reproduced": (r is False), "detail": "returned %r" % (r,)}


def main(argv):
    mode = argv[0]
    if mode == "replay":
        os.environ["VF_REPLAY"] = "1"
    real_stdout = sys.stdout
    sys.stdout = io.StringIO()   # nauyaca prints warnings in places; keep protocol clean
    try:
        if mode == "check":
            res = do_check(argv[1], argv[2], argv[3])
        elif mode == "replay":
            res = do_replay(argv[1], argv[2], argv[3], real=("--real" in argv[4:]))
        else:
            raise SystemExit("mode?")
    except SystemExit:
        raise
    except BaseException as e:  # noqa: BLE001
        res = {"state": "HARNESS_ERROR", "message": "%s: %s" % (type(e).__name__, e),
               "trace": traceback.format_exc()[-2000:]}
    noise = sys.stdout.getvalue()
    sys.stdout = real_stdout
    if noise:
        res["stdout_noise"] = noise[-300:]
    print(json.dumps(res))


if __name__ == "__main__":
    main(sys.argv[1:])
