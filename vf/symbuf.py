"""Structured byte buffers whose *lengths* are solver integers.

SymBuf is a subclass of ``bytes`` (so ``isinstance(x, bytes)`` in nauyaca holds) made of
segments:

    bytes-like (concrete ``bytes`` or a CrossHair symbolic bytes object)
    Fill(n)  -> n filler bytes b"a", n may be a symbolic int

Only the operations nauyaca's stream code performs are implemented; anything else raises
HarnessError (never a silent wrong answer).  Needles searched for must not contain b"a".
"""
from __future__ import annotations

from vf import CONCRETE, HarnessError

FILL_BYTE = b"a"


class Fill:
    __slots__ = ("n",)

    def __init__(self, n):
        self.n = n

    def __repr__(self):
        return "Fill(%r)" % (self.n,)


class Txt:
    """Segment that is the UTF-8 encoding of a (possibly symbolic) ``str`` free of CR and LF.  The bytes are never
    materialised: ``decode`` hands the str back, the length is the UTF-8 length computed from the code points, searches
    for CR/LF needles skip it, and a cut inside it is outside the model.  Lets request lines built from symbolic
    characters enter through ``data_received`` instead of through a private method."""
    __slots__ = ("s", "_n")

    def __init__(self, s):
        self.s = s
        self._n = None

    @property
    def n(self):
        if self._n is None:
            t = 0
            for ch in self.s:
                o = ord(ch)
                t += 1 if o < 0x80 else 2 if o < 0x800 else 3 if o < 0x10000 else 4
            self._n = t
        return self._n

    def __repr__(self):
        return "Txt(%r)" % (self.s,)


def _is_fill(s):
    return type(s) is Fill


def _is_txt(s):
    return type(s) is Txt


def _slen(s):
    return s.n if (type(s) is Fill or type(s) is Txt) else len(s)


def _flatten(segs):
    for s in segs:
        if type(s) is SymBuf:
            for t in s.segs:
                yield t
        else:
            yield s


def _norm(segs):
    out = []
    for s in _flatten(segs):
        if _is_fill(s):
            if out and _is_fill(out[-1]):
                out[-1] = Fill(out[-1].n + s.n)
            else:
                out.append(s)
        elif _is_txt(s):
            out.append(s)
        else:
            if len(s) == 0:
                continue
            if out and not _is_fill(out[-1]) and not _is_txt(out[-1]):
                out[-1] = out[-1] + s
            else:
                out.append(s)
    return out


def _small(d, hi):
    """Fork a (possibly symbolic) int known to lie in 0..hi into a concrete int."""
    for i in range(hi + 1):
        if d == i:
            return i
    raise HarnessError("offset outside segment")


try:                                    # imported eagerly: never while a ModelFS is installed
    from crosshair.tracers import NoTracing, is_tracing
except ImportError:                     # pragma: no cover
    NoTracing = is_tracing = None


def _is_real_bytes(s):
    """type() is patched by CrossHair to answer ``bytes`` for symbolic byte strings too."""
    if is_tracing is None:
        return type(s) is bytes
    if not is_tracing():
        return type(s) is bytes
    with NoTracing():
        return type(s) is bytes


def _txt_needle(needle):
    for b in bytes(needle):
        if b not in (13, 10):
            raise HarnessError("search inside a Txt segment for something other than CR/LF")


def _seg_rfind(s, needle):
    if _is_real_bytes(s):
        return s.rfind(needle)
    n = len(s)
    m = len(needle)
    for j in range(n - m, -1, -1):
        hit = True
        for q in range(m):
            if s[j + q] != needle[q]:
                hit = False
                break
        if hit:
            return j
    return -1


def _seg_find(s, needle):
    """find() that stays symbolic: ``find``/``in`` on CrossHair's symbolic bytes make the
    engine realise every byte, an element-wise scan forks only on the symbolic positions."""
    if _is_real_bytes(s):
        return s.find(needle)
    n = len(s)
    m = len(needle)
    for j in range(n - m + 1):
        hit = True
        for q in range(m):
            if s[j + q] != needle[q]:
                hit = False
                break
        if hit:
            return j
    return -1


def _small_bytes(buf, n):
    """bytes of a buffer known to be exactly ``n`` (a small concrete number) long: filler runs inside it are expanded
    (their length is forked into a concrete value), so prefix / suffix tests may touch filler bytes"""
    if type(buf) is not SymBuf:
        return bytes(buf)
    out = b""
    for s in buf.segs:
        if _is_fill(s):
            out = out + FILL_BYTE * _small(s.n, n)
        elif _is_txt(s):
            raise HarnessError("prefix / suffix test reaches into a Txt segment")
        else:
            out = out + s
    return out


class SymBuf(bytes):
    def __new__(cls, segs=()):
        o = bytes.__new__(cls)
        o.segs = _norm(list(segs))
        return o

    def __init__(self, segs=()):
        pass

    # ---- size -------------------------------------------------------------------------
    def __len__(self):
        t = 0
        for s in self.segs:
            t = t + _slen(s)
        return t

    def total(self):
        return self.__len__()

    def __bool__(self):
        return True if self.__len__() > 0 else False

    # ---- concatenation ----------------------------------------------------------------
    def __add__(self, o):
        if type(o) is SymBuf:
            return SymBuf(self.segs + o.segs)
        return SymBuf(self.segs + [o])

    def __radd__(self, o):
        if type(o) is SymBuf:
            return SymBuf(o.segs + self.segs)
        return SymBuf([o] + self.segs)

    # ---- search -----------------------------------------------------------------------
    def _find(self, needle):
        if FILL_BYTE in bytes(needle):
            raise HarnessError("needle contains the filler byte")
        off = 0
        for k, s in enumerate(self.segs):
            if _is_fill(s):
                off = off + s.n
            elif _is_txt(s):
                _txt_needle(needle)
                off = off + s.n
            else:
                i = _seg_find(s, needle)
                if i >= 0:
                    return off + i
                off = off + len(s)
        return -1

    def _window(self, a):
        """(buffer restricted to [start:end], start) for the optional bounds of find/index/..."""
        start = a[0] if len(a) > 0 and a[0] is not None else 0
        end = a[1] if len(a) > 1 else None
        if len(a) > 2 or start < 0 or (end is not None and end < 0):
            raise HarnessError("search bounds %r" % (a,))
        n = self.__len__()
        if start > n:
            return None, start
        win = self[start:] if end is None else self[start:end]
        return win, start

    def find(self, needle, *a):
        if not a:
            return self._find(needle)
        win, start = self._window(a)
        if win is None:
            return -1
        i = win._find(needle) if type(win) is SymBuf else bytes(win).find(needle)
        return -1 if i < 0 else start + i

    def __contains__(self, needle):
        return self._find(needle) >= 0

    def startswith(self, prefix, *a):
        if a:
            raise HarnessError("startswith with bounds")
        if isinstance(prefix, tuple):
            for q in prefix:
                if self.startswith(q):
                    return True
            return False
        n = len(prefix)
        if n > self.__len__():
            return False
        head = self[:n]
        return _small_bytes(head, n) == bytes(prefix)

    def endswith(self, suffix, *a):
        if a:
            raise HarnessError("endswith with bounds")
        if isinstance(suffix, tuple):
            for q in suffix:
                if self.endswith(q):
                    return True
            return False
        n, total = len(suffix), self.__len__()
        if n > total:
            return False
        tail = self[total - n:]
        return _small_bytes(tail, n) == bytes(suffix)

    def index(self, needle, *a):
        i = self.find(needle, *a)
        if i < 0:
            raise ValueError("subsection not found")
        return i

    def _rfind(self, needle):
        if FILL_BYTE in bytes(needle):
            raise HarnessError("needle contains the filler byte")
        ends = []
        off = 0
        for s in self.segs:
            ends.append(off)
            off = off + _slen(s)
        for s, start in zip(reversed(self.segs), reversed(ends)):
            if _is_fill(s):
                continue
            if _is_txt(s):
                _txt_needle(needle)
                continue
            i = _seg_rfind(s, needle)
            if i >= 0:
                return start + i
        return -1

    def rfind(self, needle, *a):
        if not a:
            return self._rfind(needle)
        win, start = self._window(a)
        if win is None:
            return -1
        i = win._rfind(needle) if type(win) is SymBuf else bytes(win).rfind(needle)
        return -1 if i < 0 else start + i

    def rindex(self, needle, *a):
        i = self.rfind(needle, *a)
        if i < 0:
            raise ValueError("subsection not found")
        return i

    def partition(self, sep):
        i = self._find(sep)
        if i < 0:
            return (self, b"", b"")
        a, rest = self.cut(i)
        s, b = rest.cut(len(sep))
        return (a, bytes(sep), b)

    def rpartition(self, sep):
        i = self._rfind(sep)
        if i < 0:
            return (b"", b"", self)
        a, rest = self.cut(i)
        s, b = rest.cut(len(sep))
        return (a, bytes(sep), b)

    def removeprefix(self, prefix):
        return self[len(prefix):] if self.startswith(prefix) else self

    def removesuffix(self, suffix):
        return self[:self.__len__() - len(suffix)] if (len(suffix) and self.endswith(suffix)) else self

    # ---- cutting ----------------------------------------------------------------------
    def cut(self, k):
        """Split at absolute offset k, 0 <= k <= len."""
        left, right, off = [], [], 0
        done = False
        for s in self.segs:
            if done:
                right.append(s)
                continue
            ln = _slen(s)
            if k >= off + ln:
                left.append(s)
                off = off + ln
            else:
                d = k - off
                if _is_fill(s):
                    left.append(Fill(d))
                    right.append(Fill(s.n - d))
                elif _is_txt(s):
                    if d != 0:
                        raise HarnessError("cut inside a Txt segment")
                    right.append(s)
                else:
                    d = _small(d, len(s))
                    left.append(s[:d])
                    right.append(s[d:])
                done = True
        return SymBuf(left), SymBuf(right)

    def split(self, sep=None, maxsplit=-1):
        if sep is None:
            raise HarnessError("whitespace split of a SymBuf")
        out, rest, k = [], self, 0
        while maxsplit < 0 or k < maxsplit:
            if type(rest) is not SymBuf:
                break
            i = rest._find(sep)
            if i < 0:
                break
            a, tail = rest.cut(i)
            _, rest = tail.cut(len(sep))
            out.append(a)
            k += 1
        out.append(rest)
        return out

    def __getitem__(self, sl):
        if not isinstance(sl, slice) or sl.step is not None:
            raise HarnessError("SymBuf index %r" % (sl,))
        n = self.__len__()
        if sl.start is None and sl.stop is not None:
            k = sl.stop
            if k < 0:
                raise HarnessError("negative slice")
            if k > n:
                k = n
            return self.cut(k)[0]
        if sl.stop is None and sl.start is not None:
            k = sl.start
            if k < 0:
                raise HarnessError("negative slice")
            if k > n:
                k = n
            return self.cut(k)[1]
        if sl.start is None and sl.stop is None:
            return self
        a, b = sl.start, sl.stop
        if a < 0 or b < 0:
            raise HarnessError("negative slice")
        if b > n:
            b = n
        if a >= b:
            return SymBuf([])
        return self.cut(b)[0].cut(a)[1]

    # ---- conversion -------------------------------------------------------------------
    def decode(self, enc="utf-8", errors="strict"):
        if any(_is_txt(s) for s in self.segs):
            text = ""
            for s in self.segs:
                if _is_fill(s):
                    raise HarnessError("decode of a buffer mixing Txt and Fill")
                text = text + (s.s if _is_txt(s) else s.decode(enc, errors))
            return text
        out = b""
        has_fill = False
        for s in self.segs:
            if _is_fill(s):
                out = out + FILL_BYTE * 3
                has_fill = True
            else:
                out = out + s
        if not has_fill:
            # no length abstraction involved: hand back the (possibly symbolic) str itself;
            # building a str subclass from a symbolic str would concretise it
            return out.decode(enc, errors)
        return FillStr(out.decode(enc, errors), self)

    def concrete(self):
        """Real ``bytes`` with every Fill expanded (concrete replays only)."""
        out = b""
        for s in self.segs:
            out += (FILL_BYTE * int(s.n)) if _is_fill(s) else s.s.encode("utf-8") if _is_txt(s) else bytes(s)
        return out

    def __buffer__(self, flags):
        """C-level consumers (memoryview(), pathlib.write_bytes) get the expanded bytes; that
        concretises symbolic lengths, which is what any C boundary does anyway."""
        return memoryview(self.concrete())

    def concrete_if_plain(self):
        out = b""
        for s in self.segs:
            if _is_fill(s) or _is_txt(s):
                raise HarnessError("comparison touches a Fill/Txt segment")
            out = out + s
        return out

    def same_as(self, other) -> bool:
        """Structural equality of two buffers (Fill lengths compared as integers)."""
        if type(other) is not SymBuf:
            other = SymBuf([other])
        a, b = self.segs, other.segs
        if len(a) != len(b):
            # different segmentation may still denote equal bytes only if lengths are 0 somewhere
            a = [s for s in a if not (_is_fill(s) and s.n == 0)]
            b = [s for s in b if not (_is_fill(s) and s.n == 0)]
            a, b = _norm(a), _norm(b)
            if len(a) != len(b):
                return False
        for s, t in zip(a, b):
            if _is_fill(s) != _is_fill(t) or _is_txt(s) != _is_txt(t):
                return False
            if _is_fill(s):
                if s.n != t.n:
                    return False
            elif _is_txt(s):
                if s.s != t.s:
                    return False
            elif s != t:
                return False
        return True

    def __eq__(self, other):
        if isinstance(other, (bytes, bytearray)) or type(other) is SymBuf:
            return self.same_as(other)
        return NotImplemented

    def __ne__(self, other):
        r = self.__eq__(other)
        return r if r is NotImplemented else not r

    __hash__ = None

    def __repr__(self):
        return "SymBuf(%r)" % (self.segs,)

    def __iter__(self):
        raise HarnessError("iteration over SymBuf")

    def __bytes__(self):
        return self.concrete()


def _unsupported(name):
    def f(self, *a, **k):
        raise HarnessError("bytes.%s is not modelled by SymBuf" % name)
    f.__name__ = name
    return f


# every other bytes method would silently operate on the empty placeholder value: refuse instead
for _name in dir(bytes):
    if _name in SymBuf.__dict__:
        continue
    if _name.startswith("__") and _name not in ("__mul__", "__rmul__", "__mod__", "__rmod__", "__lt__", "__le__", "__gt__",
                                                "__ge__", "__reversed__"):
        continue
    setattr(SymBuf, _name, _unsupported(_name))
del _name


class FillStr(str):
    """``str`` produced by SymBuf.decode: content shows 3 filler characters per Fill, but
    ``encode()`` returns the full-length buffer so every length guard sees the true length."""

    def __new__(cls, rep, buf):
        o = str.__new__(cls, rep)
        o.buf = buf
        return o

    def encode(self, enc="utf-8", errors="strict"):
        return self.buf


class TextBody(str):
    """A text body whose character count and UTF-8 byte count are *separate* solver integers
    (nchars <= nbytes): ``len()`` answers the character count, ``encode()`` the byte buffer.
    Only for values that nauyaca treats as an opaque body (never for URLs)."""

    def __new__(cls, nchars, buf):
        o = str.__new__(cls, "")
        o.nchars = nchars
        o.buf = buf
        return o

    def __len__(self):
        return self.nchars

    def __bool__(self):
        return True if self.nchars > 0 else False

    def encode(self, enc="utf-8", errors="strict"):
        return self.buf


class RealBuf(bytes):
    """Concrete replays do not go through the SymBuf model at all: the buffer is a real ``bytes`` value (every Fill
    expanded), so nauyaca's stream code runs on exactly what it would see in production and a counterexample that only
    exists because the model of ``bytes`` differs from ``bytes`` cannot reproduce.  Only the helpers the harnesses call
    on their own buffers (cut, same_as, segs, ...) are added; concatenation keeps the helper type."""

    def __new__(cls, segs=()):
        out = b""
        for s in _flatten(list(segs)):
            out += (FILL_BYTE * int(s.n)) if _is_fill(s) else s.s.encode("utf-8") if _is_txt(s) else bytes(s)
        return bytes.__new__(cls, out)

    def __init__(self, segs=()):
        pass

    @property
    def segs(self):
        return [bytes(self)] if len(self) else []

    def total(self):
        return len(self)

    def __add__(self, o):
        return RealBuf([bytes(self), o])

    def __radd__(self, o):
        return RealBuf([o, bytes(self)])

    def cut(self, k):
        k = int(k)
        return RealBuf([bytes(self)[:k]]), RealBuf([bytes(self)[k:]])

    def concrete(self):
        return bytes(self)

    concrete_if_plain = concrete

    def same_as(self, other) -> bool:
        return bytes(self) == bytes(other)

    def __repr__(self):
        return "RealBuf(%r)" % (bytes(self)[:80],)


if CONCRETE:
    SymBuf = RealBuf            # noqa: F811


def mk(*parts):
    """mk(b"gemini://h/", Fill(n), b"\\r\\n")"""
    return SymBuf(list(parts))


def deliver(proto, buf, cuts, transport=None):
    """Feed ``buf`` to ``proto.data_received`` split at the (sorted, symbolic) offsets ``cuts``.

    Stops delivering once the transport reports it has been closed (asyncio stops reading a
    closed transport)."""
    rest = buf
    prev = 0
    for c in cuts:
        a, rest = rest.cut(c - prev)
        prev = c
        if a:
            if transport is not None and transport.closed:
                return
            proto.data_received(a)
    if rest:
        if transport is not None and transport.closed:
            return
        proto.data_received(rest)
