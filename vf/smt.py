"""Direct SMT queries: z3 (Python API) cross-checked with cvc5 (SMT-LIB text via its parser)."""
from __future__ import annotations

import time

import z3


def z3_check(constraints, timeout_s=60):
    s = z3.Solver()
    s.set("timeout", int(timeout_s * 1000))
    for c in constraints:
        s.add(c)
    t0 = time.time()
    r = s.check()
    res = str(r)
    model = None
    if res == "sat":
        m = s.model()
        model = {str(d): str(m[d]) for d in m.decls()}
    return res, round(time.time() - t0, 3), model, s


def cvc5_check(z3_solver, timeout_s=60, logic="ALL", extra_opts=()):
    """Run the same assertions through cvc5; returns (result, seconds).  Any parser or solver
    error is reported as 'error:<text>' (treated as inconclusive by callers)."""
    try:
        import cvc5
    except ImportError as e:
        return "error:no cvc5 (%s)" % e, 0.0
    text = z3_solver.to_smt2()
    text = "(set-logic %s)\n" % logic + text
    t0 = time.time()
    try:
        slv = cvc5.Solver()
        slv.setOption("tlimit-per", str(int(timeout_s * 1000)))
        for k, v in extra_opts:
            slv.setOption(k, v)
        parser = cvc5.InputParser(slv)
        parser.setStringInput(cvc5.InputLanguage.SMT_LIB_2_6, text, "q")
        sm = parser.getSymbolManager()
        out = None
        while True:
            cmd = parser.nextCommand()
            if cmd.isNull():
                break
            r = cmd.invoke(slv, sm)
            r = (r or "").strip()
            if r in ("sat", "unsat", "unknown"):
                out = r
            elif "error" in r.lower():
                return "error:" + r[:200], round(time.time() - t0, 3)
        return out or "error:no check-sat result", round(time.time() - t0, 3)
    except Exception as e:  # noqa: BLE001
        return "error:%s" % str(e)[:200], round(time.time() - t0, 3)


def decide(name, constraints, timeout_s=60, logic="ALL", cross=True):
    """unsat -> holds.  Returns dict with both solvers' answers."""
    r, t, model, s = z3_check(constraints, timeout_s)
    rec = {"query": name, "z3": r, "z3_s": t}
    if model is not None:
        rec["model"] = model
    if cross:
        rc, tc = cvc5_check(s, timeout_s, logic)
        rec["cvc5"] = rc
        rec["cvc5_s"] = tc
        if rc in ("sat", "unsat") and r in ("sat", "unsat") and rc != r:
            rec["disagree"] = True
    return rec


def frac(v: str) -> float:
    """z3 model value text ('1/512', '3', '2.5?') -> float"""
    v = v.replace("?", "")
    if "/" in v:
        a, b = v.split("/")
        return float(a) / float(b)
    return float(v)
