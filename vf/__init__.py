"""vf - small framework for solver-based checks of nauyaca (see /verif/DESIGN.md).

Everything a harness module needs is importable from here:

    from vf import Ob, V, TIER, pick, admit, HarnessError

A *harness* is a module-level function with a PEP-316 docstring (``pre:`` lines are the
bounds / assumptions, ``post: _`` is the property) that drives the REAL nauyaca code and
returns ``V(ok)``.  ``V`` is the identity in a normal run and returns False in the
reachability twin (env VF_TWIN=1), so the twin must be refuted by CrossHair or the
obligation is vacuous.
"""
from __future__ import annotations

import json
import os
from dataclasses import dataclass, field
from typing import Any, Callable

TIER = os.environ.get("VERIF_TIER", "quick")
TWIN = os.environ.get("VF_TWIN") == "1"
CONCRETE = os.environ.get("VF_REPLAY") == "1"     # concrete replay: harnesses may use real str/bytes instead of abstractions
HERE = os.path.dirname(os.path.dirname(os.path.abspath(__file__)))


_RAISED = []


class HarnessError(Exception):
    """The machinery (a stub, a model) was asked for something it does not implement.

    Never a property violation: the runner maps it to exit code 3.  Every instance is also recorded, so that one which
    the code under analysis swallows in a broad ``except Exception`` still surfaces at the verdict point ``V``.
    """

    def __init__(self, *a):
        super().__init__(*a)
        _RAISED.append((_path_token(), str(a[0]) if a else ""))


def _path_token():
    """identity of the execution path being explored (the engine builds one StateSpace per path); None when concrete"""
    try:
        from crosshair.statespace import optional_context_statespace
        return optional_context_statespace()
    except Exception:  # noqa: BLE001
        return None


def V(ok: Any) -> bool:
    """Verdict point of a harness.  Twin mode forces the postcondition false *here*."""
    if _RAISED:
        here = _path_token()
        mine = [m for tok, m in _RAISED if tok is here]
        del _RAISED[:]
        if mine:
            err = HarnessError("raised earlier on this path and swallowed by the code under analysis: " + mine[0])
            del _RAISED[:]
            raise err
    if TWIN:
        return False
    return True if ok else False


def pick(quick, thorough):
    return quick if TIER == "quick" else thorough


# ---------------------------------------------------------------------------------------
# known findings: regions of an obligation's argument space that are recorded defects
# ---------------------------------------------------------------------------------------
_KF = None


def known_findings():
    global _KF
    if _KF is None:
        p = os.path.join(HERE, "known_findings.json")
        try:
            with open(p) as f:
                _KF = json.load(f)
        except FileNotFoundError:
            _KF = {"findings": [], "fixed": []}
    return _KF


def regions_for(ob_id: str):
    return [f for f in known_findings().get("findings", []) if f.get("obligation") == ob_id]


_REGION_CODE: dict = {}


def admit(ob_id: str, **kw) -> bool:
    """Precondition helper: False inside a recorded known-finding region of ``ob_id``.

    Used as ``pre: admit("C11.order", entry=entry, pin=pin)``.  With no finding recorded
    for the obligation this is the constant True, so it costs nothing.
    """
    if os.environ.get("VF_NO_EXCLUDE") == "1":
        return True
    regs = _REGION_CODE.get(ob_id)
    if regs is None:
        regs = [compile(f["region"], "<region %s>" % ob_id, "eval") for f in regions_for(ob_id)]
        _REGION_CODE[ob_id] = regs
    for code in regs:
        if eval(code, {}, dict(kw)):
            return False
    return True


# ---------------------------------------------------------------------------------------
# obligation descriptor
# ---------------------------------------------------------------------------------------
@dataclass
class Ob:
    name: str                      # short name, unique inside the property ("len_guard")
    fn: Callable | None = None     # crosshair harness (PEP316) or smt function
    kind: str = "crosshair"        # "crosshair" | "smt" | "diff"
    quick: float = 60.0            # per-condition budget (s), quick tier
    thorough: float = 600.0        # budget, thorough tier
    tiers: tuple = ("quick", "thorough")
    symbolic: str = ""             # what the solver decides (variables and bounds)
    enum: str = ""                 # concrete parameters multiplied out by the generator
    functions: list = field(default_factory=list)   # nauyaca callables executed (qualified names)
    stubs: list = field(default_factory=list)
    outside: list = field(default_factory=list)
    real_replay: Callable | None = None   # L2 replay against real back ends (same signature)
    twin: bool = True              # run the reachability twin
    expect: str = "confirmed"      # what the quick tier is sized to reach on the reference tree
    note: str = ""

    def budget(self, tier: str) -> float:
        return self.quick if tier == "quick" else self.thorough


class NoLog:
    """Replacement for module-level structlog/logging loggers (formatting forks paths)."""

    def _n(self, *a, **k):
        return None

    debug = info = warning = error = exception = critical = msg = _n

    def bind(self, *a, **k):
        return self


class FixedClock:
    """Replacement for module ``time`` where the value only feeds logging."""

    @staticmethod
    def time():
        return 1000.0

    @staticmethod
    def monotonic():
        return 1000.0


def internal(obj, name):
    """Read an implementation detail of nauyaca that a harness needs (private attribute named in the
    property's anchors).  If a refactoring renamed it, that is a machinery problem (exit 3), not a
    verdict about nauyaca."""
    try:
        return getattr(obj, name)
    except AttributeError:
        raise HarnessError("nauyaca internal %r.%s is gone: harness needs updating" % (type(obj).__name__, name))


class ModProxy:
    """module stand-in: listed names come from ``table``, everything else from the real module"""

    def __init__(self, real, table):
        self.__dict__["_real"] = real
        self.__dict__["_table"] = table

    def __getattr__(self, name):
        t = self.__dict__["_table"]
        if name in t:
            return t[name]
        return getattr(self.__dict__["_real"], name)


def rebind(mod, real, table):
    """Substitute environment functions inside module ``mod`` however it spells its imports: a global that is the
    module ``real`` (``import ipaddress``) becomes a proxy serving ``table``; a global that is one of ``real``'s own
    attributes named in ``table`` (``from ipaddress import ip_network``) becomes the table entry.  Returns the undo
    list for ``unbind``.  Keeps stubs independent of import style, which a refactoring may change freely."""
    undo = []
    byid = {}
    for k, v in table.items():
        if hasattr(real, k):
            byid[id(getattr(real, k))] = v
    for name, val in list(vars(mod).items()):
        if name.startswith("__"):
            continue
        if val is real:
            new = ModProxy(real, table)
        elif id(val) in byid:
            new = byid[id(val)]
        else:
            continue
        undo.append((mod, name, val))
        setattr(mod, name, new)
    return undo


def unbind(undo):
    for mod, name, val in reversed(undo):
        setattr(mod, name, val)


_BOUND = {}


def bind(mod, real, stub, required=True):
    """(Re)install ``stub`` for the environment module ``real`` (asyncio, time, sqlite3, ...) inside the nauyaca module
    ``mod``, whichever way ``mod`` imports it (see rebind).  ``stub`` is a dict or an object whose public attributes are
    the substituted names.  If ``mod`` does not reference ``real`` at all the stub cannot engage: with ``required`` that
    is a machinery problem (exit 3) -- the harness would otherwise drive a clock or a loop nobody reads."""
    key = (mod.__name__, real.__name__)
    if key in _BOUND:
        unbind(_BOUND.pop(key))
    if isinstance(stub, dict):
        table = stub
    else:
        table = {}
        for k in dir(stub):
            if not k.startswith("_"):
                table[k] = getattr(stub, k)
    undo = rebind(mod, real, table)
    if not undo and required:
        raise HarnessError("%s does not reference %s any more: stub cannot engage" % (mod.__name__, real.__name__))
    _BOUND[key] = undo
    return undo


def release(mod, real):
    key = (mod.__name__, real.__name__)
    if key in _BOUND:
        unbind(_BOUND.pop(key))


class ModuleState:
    """Snapshot of the mutable module-level containers of a module under analysis (caches, registries).  ``restore()`` at
    the start of a harness makes every explored path start from the import-time state, so a counterexample never depends
    on what an earlier path left behind in the process."""

    def __init__(self, mod):
        import collections
        import copy
        self.mod = mod
        self.snap = {}
        for name, val in list(vars(mod).items()):
            if name.startswith("__"):
                continue
            if isinstance(val, (dict, list, set, collections.deque)):
                try:
                    self.snap[name] = copy.deepcopy(val)
                except Exception:  # noqa: BLE001
                    pass

    def restore(self):
        import copy
        for name, val in self.snap.items():
            setattr(self.mod, name, copy.deepcopy(val))
