"""Run the real GeminiClient (get / upload / delete, redirects) against scripted peers.

* connections: MiniLoop.connector creates the real protocol object via the client's factory,
  hands it a PeerTransport whose ssl_object presents the scripted certificate, and records
  (host, port).  TLS itself is outside (trusted: create_connection calls connection_made when
  the handshake is complete).
* the trust store is the real TOFUDatabase over ModelSQL.
* the peer answers only after the client coroutine has blocked waiting for the response.
"""
from __future__ import annotations

import datetime as _dt

from cryptography import x509
from cryptography.hazmat.primitives import hashes, serialization
from cryptography.hazmat.primitives.asymmetric import ec, ed25519, rsa
from cryptography.x509.oid import NameOID

import nauyaca.protocol.request  # noqa: F401
import nauyaca.client.session as cs
import nauyaca.security.tofu as tofu
from nauyaca.client.session import GeminiClient
from nauyaca.security.certificates import get_certificate_fingerprint
from nauyaca.security.tofu import TOFUDatabase

import asyncio as _asyncio
import sqlite3 as _sqlite3

from vf import HarnessError, bind
from vf.modelsql import DB, Ctl, FakeDatetime, FakeSqlite, install_clock
from vf.stubs import FakeAsyncio, FakeTransport, MiniLoop


def _mkcert(kind, cn, start=None, days=365):
    if kind == "ec":
        key = ec.generate_private_key(ec.SECP256R1())
        alg = hashes.SHA256()
    elif kind == "ed":
        key = ed25519.Ed25519PrivateKey.generate()
        alg = None
    else:
        key = rsa.generate_private_key(public_exponent=65537, key_size=2048)
        alg = hashes.SHA256()
    name = x509.Name([x509.NameAttribute(NameOID.COMMON_NAME, cn)])
    now = start or _dt.datetime(2026, 1, 1, tzinfo=_dt.timezone.utc)
    cert = (x509.CertificateBuilder().subject_name(name).issuer_name(name).public_key(key.public_key())
            .serial_number(x509.random_serial_number()).not_valid_before(now).not_valid_after(now + _dt.timedelta(days=days))
            .sign(key, alg))
    return cert


# generated once per process, outside the symbolic engine
CERTS = [_mkcert("ec", "a"), _mkcert("ed", "b"), _mkcert("rsa", "c"),
         _mkcert("ec", "expired", _dt.datetime(2001, 1, 1, tzinfo=_dt.timezone.utc), 30),       # long expired
         _mkcert("ec", "future", _dt.datetime(2090, 1, 1, tzinfo=_dt.timezone.utc), 30)]        # not yet valid
DERS = [c.public_bytes(serialization.Encoding.DER) for c in CERTS]
FPS = [get_certificate_fingerprint(c) for c in CERTS]
BAD_DER = b"\x30\x03\x02\x01\x01"        # DER that the X.509 parser rejects (stand-in for odd encodings)


class SSLObj:
    def __init__(self, der):
        self.der = der

    def getpeercert(self, binary_form=False):
        return self.der if binary_form else {}


class PeerTransport(FakeTransport):
    def __init__(self, env, host, port, ssl_object):
        super().__init__(peer=(host, port), ssl_object=ssl_object)
        self.env = env
        self.host, self.port = host, port
        self.proto = None
        self.answered = False
        self.rx_before_verify = 0     # bytes written by the client before the pin check had passed
        self.rx = []

    def write(self, data):
        super().write(data)
        self.rx.append(data)
        # semantic, implementation-independent notion of "verified": at the moment bytes leave, the trust
        # store holds a pin for this host:port that equals the certificate this peer presented
        if not self.env.pin_matches(self):
            self.rx_before_verify = self.rx_before_verify + len(data)

    def total_rx(self):
        n = 0
        for d in self.rx:
            n = n + len(d)
        return n


class Runaway(Exception):
    """the client call did not finish within the harness' round limit"""


class Env:
    """One scripted world: pins, peers, recorded connections."""
    max_rounds = 20

    def __init__(self, tofu_on=True):
        self.db = DB()
        self.ctl = Ctl()
        bind(tofu, _sqlite3, FakeSqlite(self.db, self.ctl))
        install_clock(tofu)
        self.loop = MiniLoop()
        bind(cs, _asyncio, FakeAsyncio(self.loop))
        self.loop.connector = self._connect
        self.conns = []
        self.cert_for = {}            # (host, port) -> index into DERS | "bad" | "nossl" | "nocert"
        self.answer_for = {}          # (host, port, request-line bytes or None) -> bytes
        self.default_answer = b"20 text/gemini\r\nhello"
        self.refuse = set()           # (host, port) that refuse the TCP/TLS connection
        self.verified = {}            # id(transport) -> bool
        # the real constructors run (sqlite3 is already the model, so the schema statement goes there)
        import pathlib
        c = GeminiClient(timeout=30, max_redirects=5, verify_ssl=False, trust_on_first_use=tofu_on,
                         tofu_db_path=pathlib.Path("model.db"))
        if tofu_on:
            c.tofu_db = self._wrap(c.tofu_db)
        self.client = c
        self.current = None

    # ---- trust store -------------------------------------------------------------------
    def pin(self, host, port, idx):
        self.db.rows[(host, port)] = dict(hostname=host, port=port, fingerprint=FPS[idx], first_seen="t0", last_seen="t0")

    def pins(self):
        return {k: v["fingerprint"] for k, v in self.db.rows.items()}

    def pin_matches(self, t):
        what = self.cert_for.get((t.host, t.port), 0)
        if not isinstance(what, int):
            return False                       # unreadable certificate: can never count as verified
        row = self.db.rows.get((t.host, t.port))
        return row is not None and row["fingerprint"] == FPS[what]

    def _wrap(self, t):
        env = self
        real_verify, real_trust = t.verify, t.trust

        def verify(hostname, port, cert):
            ok, msg = real_verify(hostname, port, cert)
            if ok and msg == "" and env.current is not None:
                env.verified[id(env.current)] = True        # pin matched
            return ok, msg

        def trust(hostname, port, cert):
            r = real_trust(hostname, port, cert)
            if env.current is not None:
                env.verified[id(env.current)] = True        # first use: pinned now
            return r
        t.verify, t.trust = verify, trust
        return t

    # ---- connections -------------------------------------------------------------------
    async def _connect(self, factory, host, port, ssl, server_hostname):
        if (host, port) in self.refuse:
            raise ConnectionRefusedError(111, "Connection refused")
        what = self.cert_for.get((host, port), 0)
        if what == "nossl":
            sslobj = None
        elif what == "nocert":
            sslobj = SSLObj(None)
        elif what == "bad":
            sslobj = SSLObj(BAD_DER)
        else:
            sslobj = SSLObj(DERS[what])
        t = PeerTransport(self, host, port, sslobj)
        proto = factory()
        t.proto = proto
        self.conns.append(t)
        self.current = t
        self.verified[id(t)] = False
        proto.connection_made(t)
        t.rx_at_connect = len(t.rx)
        return t, proto

    def run(self, coro):
        """-> (result, exception).  The peer answers each connection once the client waits."""
        task = self.loop.create_task(coro)
        task.run()
        guard = 0
        while not task.done():
            guard += 1
            if guard > self.max_rounds:
                # the call keeps opening connections: hand that fact to the oracle
                task.cancel()
                return None, Runaway("client still running after %d answered connections" % len(self.conns))
            pend = [t for t in self.conns if not t.answered and not t.closed]
            if not pend:
                # nothing left to answer: let virtual time pass (timeouts)
                self.loop.advance(self.loop.now + 1000)
                task.run()
                continue
            t = pend[-1]
            t.answered = True
            line = b"".join(bytes(x) if not isinstance(x, bytes) else x for x in t.rx[:1])
            ans = self.answer_for.get((t.host, t.port, line), self.answer_for.get((t.host, t.port, None), self.default_answer))
            if ans is not None:
                t.proto.data_received(ans)
                if not t.proto.response_future.done() or True:
                    t.proto.connection_lost(None)
            task.run()
        exc = task.exception()
        return (None, exc) if exc is not None else (task.result(), None)
