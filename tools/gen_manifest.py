#!/usr/bin/env python3
"""Regenerate /verif/MANIFEST.json from the props modules (run with the overlay python)."""
import importlib
import json
import os
import sys

HERE = os.path.dirname(os.path.dirname(os.path.abspath(__file__)))
sys.path.insert(0, HERE)
os.environ.setdefault("VERIF_TIER", "quick")

NA = {
    "C20": ("TLS version negotiation and the handling of non-TLS bytes happen inside OpenSSL's C state machine, which no "
            "solver-based engine available here can execute symbolically; the Python side is four constant assignments "
            "with no Python-level observable that distinguishes the code from a mutant (pyOpenSSL has no getter for the "
            "minimum version; stdlib contexts already default to TLS 1.2). A contract stub assuming 'OpenSSL honours the "
            "configured floor' would make the check a tautology. See DESIGN.md section 6."),
}

checks = []
not_applicable = []
for i in range(1, 21):
    pid = "C%02d" % i
    if pid in NA:
        not_applicable.append({"property_id": pid, "reason": NA[pid]})
        continue
    try:
        mod = importlib.import_module("props." + pid.lower())
    except ModuleNotFoundError:
        not_applicable.append({"property_id": pid, "reason": "check not built yet in this revision of /verif (planned: see DESIGN.md section 4)"})
        continue
    meta = mod.META
    has_thorough = any("thorough" in o.tiers for o in mod.OBLIGATIONS)
    c = {
        "property_id": pid,
        "quick_cmd": "./check %s --tier quick" % pid,
        "evidence_file": "/verif/evidence/%s.json" % pid,
        "replay_cmd_template": "./check %s --replay {path}" % pid,
        "engine": meta.get("engine", "crosshair+z3"),
        "level_claimed": {
            "category": meta.get("level", "model_checking"),
            "text": meta.get("level_text", meta.get("explanation", "")),
            "design_ref": "DESIGN.md section 4, %s" % pid,
        },
        "level_note": meta.get("level_note", "; ".join(meta.get("assumptions", []) + meta.get("trusted", []))),
        "technique": meta.get("technique", "bounded symbolic execution of the real Python code (CrossHair 0.0.110 + z3): "
                                           "solver decides all values of the symbolic inputs within stated bounds; "
                                           "counterexamples replayed concretely"),
    }
    if has_thorough:
        c["thorough_cmd"] = "./check %s --tier thorough" % pid
    checks.append(c)

manifest = {
    "version": 1,
    "setup_cmd": "./setup.sh",
    "hooks": {
        "guard": "ALANBATO_NAUYACA_VERIF",
        "enable": "no source hooks are needed: every stub is installed by monkey-patching from the harness process; "
                  "checks import nauyaca live from /repo/src",
        "baseline_off_cmd": "cd /repo && /venv/bin/python -m pytest -ra -q -p no:cacheprovider --timeout=900 --continue-on-collection-errors",
        "source_commits": [],
        "add_only": True,
    },
    "engines": [
        {"name": "vf-runner", "path": "/verif/vf/runner.py", "serves_properties": [c["property_id"] for c in checks],
         "kind_free_text": "obligation runner: one CrossHair (symbolic execution over z3) or direct z3/cvc5 query per process, "
                           "reachability twin per obligation, concrete replay of every counterexample before reporting"},
    ],
    "checks": checks,
    "not_applicable": not_applicable,
    "notes": "Solver-based checking of the real code; see DESIGN.md. Exit 3 from a check = harness error (machinery), never a violation.",
}
with open(os.path.join(HERE, "MANIFEST.json"), "w") as f:
    json.dump(manifest, f, indent=1)
print("checks:", [c["property_id"] for c in checks])
print("n/a   :", [n["property_id"] for n in not_applicable])
