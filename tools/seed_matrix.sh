#!/bin/bash
# tools/seed_matrix.sh [names...]  -- re-run the current checks against every stored seeded change
# (scratch worktree of /repo HEAD + patch.diff, VF_SRC pointing at it; /repo itself is not touched).
# Budgets are scaled down (VF_BUDGET_SCALE, default 0.35): a seeded change is either refuted early or not at all.
cd /verif
NAMES=${@:-$(ls seeded | grep -v MATRIX)}
export VF_BUDGET_SCALE=${VF_BUDGET_SCALE:-0.35}
for n in $NAMES; do
  ID=${n:0:3}; WT=/tmp/sm-$n
  git -C /repo worktree add -q --detach $WT HEAD || continue
  if git -C $WT apply /verif/seeded/$n/patch.diff 2>/tmp/sm-apply.err; then
    VF_SRC=$WT/src ./check $ID --no-evidence > seeded/$n/final_check.log 2>&1; rc=$?
    caught=$(grep -E " refuted " seeded/$n/final_check.log | awk '{print $1}' | tr '\n' ' ')
    echo "$n rc=$rc caught_by: $caught"
  else
    echo "$n patch does not apply: $(head -1 /tmp/sm-apply.err)"
  fi
  git -C /repo worktree remove --force $WT
done
