#!/bin/bash
# tools/seed_eval.sh <ID> [worktree] [output-dir-name]  -- confirm a seeded change and run the property's check against it.
# Uses the scratch worktree directly (VF_SRC) so /repo is not touched; prints a one-line summary.
ID=$1; WT=${2:-/tmp/wt-$ID}; OUT=/verif/seeded/${3:-$ID}
mkdir -p $OUT
cp $WT/SEED/patch.diff $WT/SEED/demo.py $OUT/ 2>/dev/null
cp $WT/SEED/meta.json $OUT/agent_meta.json 2>/dev/null
cd $WT
PYTHONPATH=$WT/src /venv/bin/python SEED/demo.py > $OUT/demo_with.log 2>&1; RC_WITH=$?
# (no git stash here: the stash is shared by all worktrees of a repository, parallel evaluations would swap changes)
git apply -R SEED/patch.diff || { echo "$ID cannot reverse patch"; exit 2; }
PYTHONPATH=$WT/src /venv/bin/python SEED/demo.py > $OUT/demo_without.log 2>&1; RC_WITHOUT=$?
git apply SEED/patch.diff || { echo "$ID cannot re-apply patch"; exit 2; }
PYTHONPATH=$WT/src /venv/bin/python -m pytest -q -p no:cacheprovider --timeout=900 -x > $OUT/tests_with.log 2>&1; RC_TESTS=$?
cd /verif
VF_SRC=$WT/src ./check $ID --tier ${TIER:-quick} --no-evidence > $OUT/check_with.log 2>&1; RC_CHECK=$?
echo "$ID demo_with=$RC_WITH demo_without=$RC_WITHOUT tests=$RC_TESTS check=$RC_CHECK" | tee $OUT/summary.txt
