#!/bin/bash
# tools/refactor_eval.sh <name> <worktree> <ID>...  -- run the repository's tests and the listed checks against a
# behaviour-preserving refactoring kept in a scratch worktree (VF_SRC). Any VIOLATION here is a false alarm of the machinery.
NAME=$1; WT=$2; shift 2
OUT=/verif/refactors/$NAME; mkdir -p $OUT
cp $WT/REFACTOR/patch.diff $WT/REFACTOR/notes.md $OUT/ 2>/dev/null
(cd $WT && PYTHONPATH=$WT/src /venv/bin/python -m pytest -q -p no:cacheprovider --timeout=900 > $OUT/tests.log 2>&1; echo "tests rc=$?" > $OUT/summary.txt)
cd /verif
for ID in "$@"; do
  VF_SRC=$WT/src VF_JOBS=${VF_JOBS:-4} ./check $ID --tier quick --no-evidence > $OUT/check_$ID.log 2>&1; rc=$?
  echo "$ID rc=$rc $(grep -c confirmed $OUT/check_$ID.log) confirmed; $(grep -E 'VIOLATION|inconclusive|harness' $OUT/check_$ID.log | head -3 | tr '\n' ' ')" >> $OUT/summary.txt
done
cat $OUT/summary.txt
