#!/usr/bin/env python3
"""Re-run every stored counterexample under replays/ against the current tree.
usage: tools/replay_all.py [--prune]   (--prune deletes files whose obligation no longer exists / signature changed)
Exit 1 if any stored counterexample reproduces (it should not on the repaired tree)."""
import glob, json, os, subprocess, sys
HERE = os.path.dirname(os.path.dirname(os.path.abspath(__file__)))
prune = "--prune" in sys.argv
bad = 0
for f in sorted(glob.glob(os.path.join(HERE, "replays", "*.json"))):
    rp = json.load(open(f))
    pid = rp["property"]
    p = subprocess.run([os.path.join(HERE, "check"), pid, "--replay", f], capture_output=True, text=True, cwd=HERE)
    out = (p.stdout + p.stderr)
    if p.returncode == 1 and "VIOLATION" in out:
        # reproduced only because of a harness exception (stale signature)?
        if "raised TypeError" in out or "raised NameError" in out or "raised IndexError" in out:
            status = "stale"
        else:
            status = "REPRODUCES"
            bad += 1
    elif p.returncode == 0:
        status = "ok"
    else:
        status = "stale"
    print("%-60s %s" % (os.path.basename(f), status))
    if status == "stale" and prune:
        os.remove(f)
sys.exit(1 if bad else 0)
