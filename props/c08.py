"""C08 - only protocol-valid requests reach handlers; valid requests are not refused"""
import nauyaca.protocol.request  # noqa: F401

from vf import Ob, V, pick
from vf.server import Spy, UploadSpy, make, wire_response
from vf.symbuf import Fill, Txt, deliver, mk

NMAX = 2000


def _request(p, url):
    """the request line ``url`` (a str built from symbolic characters, free of CR/LF) arrives in one read"""
    p.data_received(mk(Txt(url), b"\r\n"))


def _status(t):
    """First two bytes of what was written, as concrete bytes, without realising the rest
    of a (possibly symbolic) header."""
    data, closes, late = wire_response(t)
    segs = data.segs
    if not segs:
        return None
    h = segs[0]
    if len(h) < 2:
        return b"??"
    for cand in (b"20", b"59", b"50", b"40", b"51"):
        if h[0] == cand[0] and h[1] == cand[1]:
            return cand
    return b"??"


# ---------------------------------------------------------------------------------------
# length guard: every length 0..2000, every cut position
# ---------------------------------------------------------------------------------------
def len_guard(n: int, k: int, crlf: bool, titan: bool, uploads: bool) -> bool:
    """
    pre: 0 <= n <= NMAX
    pre: 0 <= k <= n + 40
    post: _
    """
    spy = Spy()
    up = UploadSpy() if uploads else None
    p, t, loop = make(spy, None, up)
    if titan:
        head, tail = b"titan://h/", b";size=0"
    else:
        head, tail = b"gemini://h/", b""
    parts = [head, Fill(n), tail]
    if crlf:
        parts.append(b"\r\n")
    data = mk(*parts)
    line_len = len(head) + n + len(tail) + 2          # request line including CRLF
    if k > len(data):
        k = len(data)
    deliver(p, data, [k], t)
    loop.run_ready()
    st = _status(t)
    reached = len(spy.calls) + (len(up.calls) if up else 0)
    if crlf:
        if titan and not uploads:
            # any titan line without uploads: 50 (59 when over-long is also a refusal)
            return V(reached == 0 and st in (b"50", b"59") and (st == b"50" or line_len > 1024))
        if line_len <= 1024:
            return V(reached == 1 and st == b"20")
        return V(reached == 0 and st == b"59")
    # no CRLF yet
    if len(head) + n + len(tail) > 1024:
        return V(reached == 0 and st == b"59")
    return V(reached == 0 and st is None and t.closed == 0)


META = {
    "files": ["src/nauyaca/server/protocol.py", "src/nauyaca/protocol/request.py", "src/nauyaca/utils/url.py",
              "src/nauyaca/protocol/constants.py"],
    "level": "model_checking",
    "explanation": ("Bounded symbolic execution of the real data_received -> from_line -> validate_url/parse_url chain. "
                    "Request-line length is a solver integer (0..2000) carried by a structured buffer, the cut position "
                    "is symbolic; leaf characters of URI skeletons are symbolic characters over stated alphabets."),
    "assumptions": [
        "SymBuf uniformity: nauyaca and urllib.parse treat 3 and n filler bytes alike except through len()",
        "logger and clock stubbed (no control flow depends on them)",
    ],
    "trusted": ["CrossHair 0.0.110 / z3 5.1", "urllib.parse executed for real (pure Python)"],
}

OBLIGATIONS = [
    Ob("len_guard", len_guard, quick=90, thorough=600,
       symbolic="line filler length n in 0..2000; cut offset k in 0..n+40; CRLF present; gemini/titan; uploads enabled",
       functions=["GeminiServerProtocol.data_received", "_handle_gemini_request", "_handle_titan_url",
                  "GeminiRequest.from_line", "TitanRequest.from_line", "validate_url", "parse_url"],
       stubs=["FakeTransport", "MiniLoop", "SymBuf", "NoLog", "FixedClock"],
       outside=["lines longer than 2040 bytes"]),
]


# ---------------------------------------------------------------------------------------
# exact boundary, concrete lines: the filler sits in different URL components (the length
# abstraction above only follows the request line itself, not strings derived from it)
# ---------------------------------------------------------------------------------------
def _line(shape, total):
    """request line (without CRLF) of exactly ``total`` bytes"""
    pre, suf = [("gemini://h/", ""), ("gemini://h?", ""), ("gemini://", ""), ("gemini://", "/"),
                ("gemini://[2001:db8::1]:1966?", ""), ("gemini://h:1965/p;", "?q"), ("gemini://H.example/%41", "")][shape]
    return pre + "a" * (total - len(pre) - len(suf)) + suf


EXACT = [[_line(sh, 1024 - 2 + d) for d in (-3, -2, -1, 0, 1, 2)] for sh in range(7)]


def len_exact(shape: int, di: int) -> bool:
    """
    pre: 0 <= shape < 7 and 0 <= di < 6
    post: _
    """
    spy = Spy()
    p, t, loop = make(spy)
    url = EXACT[shape][di]
    p.data_received(url.encode() + b"\r\n")
    loop.run_ready()
    fits = len(url) + 2 <= 1024
    if not fits:
        return V(len(spy.calls) == 0 and _status(t) == b"59")
    if len(spy.calls) != 1 or _status(t) != b"20":
        return V(False)                         # a request line of at most 1024 bytes was refused
    r = spy.calls[0]
    from urllib.parse import urlsplit
    ref = urlsplit(url)
    return V(r.hostname == ref.hostname and r.port == (ref.port or 1965) and r.path == (ref.path or "/") and r.query == ref.query)


# ---------------------------------------------------------------------------------------
# Character classes as predicates over code points.  Symbolic characters are always
# introduced as chr(<symbolic int>) with range preconditions: CrossHair then forks only on
# the distinctions the code under test makes (measured: preconditions of the form
# ``c in "..."`` on a str parameter make it enumerate code points instead).
# ---------------------------------------------------------------------------------------
def is_qchar(i):
    """query character: printable ASCII minus what RFC 3986 excludes from pchar / "/" / "?".
    Written as a conjunction so that the precondition does not fork the path tree."""
    return (0x21 <= i <= 0x7e and i != 0x22 and i != 0x23 and i != 0x25 and i != 0x3c and i != 0x3e
            and i != 0x5b and i != 0x5c and i != 0x5d and i != 0x5e and i != 0x60 and i != 0x7b
            and i != 0x7c and i != 0x7d)


def is_pchar(i):
    return is_qchar(i) and i != 0x2f and i != 0x3f


def is_reg(i):
    return is_pchar(i) and i != 0x3a and i != 0x40


def is_hex(i):
    return 0x30 <= i <= 0x39 or 0x61 <= i <= 0x66 or 0x41 <= i <= 0x46


def is_dig(i):
    return 0x30 <= i <= 0x39


def is_ascii_free(i):
    """any ASCII character except TAB/LF/CR, which urllib.parse deletes before splitting
    (grammar grey zone)."""
    return 0 <= i <= 0x7f and i != 9 and i != 10 and i != 13


def is_scalar(i):
    return is_ascii_free(i) or (0x80 <= i <= 0x10FFFF and not (0xD800 <= i <= 0xDFFF))


HEXS = "0123456789abcdefABCDEF"
DIGS = "0123456789"
HOSTS = [("h", ".example"), ("192.0.2.", ""), ("[2001:db8::", "]")]


def _accepted(p, t, loop, spy, host, port, path, query):
    loop.run_ready()
    if len(spy.calls) != 1:
        return False
    r = spy.calls[0]
    if _status(t) != b"20":
        return False
    return r.hostname == host and r.port == port and r.path == path and r.query == query


def accept_host(hk: int, a: int, pk: int) -> bool:
    """
    pre: 0 <= hk < 3 and 0 <= pk < 3
    pre: is_reg(a) if hk == 0 else is_dig(a) if hk == 1 else 0 <= a < 22
    post: _
    """
    spy = Spy()
    p, t, loop = make(spy)
    pre, suf = HOSTS[hk]
    # IPv6 literals go through ipaddress, which CrossHair can only run on concrete text:
    # the hex digit is chosen by symbolic index (the engine forks per digit)
    host = pre + (HEXS[a] if hk == 2 else chr(a)) + suf
    port_txt, port = [("", 1965), (":1965", 1965), (":7", 7)][pk]
    url = "gemini://" + host + port_txt + "/x"
    _request(p, url)
    exp_host = host.lower()
    if hk == 2:
        exp_host = exp_host[1:-1]
    return V(_accepted(p, t, loop, spy, exp_host, port, "/x", ""))


PORT_PREFIX = ["", "1", "196", "6553", "9999"]


def accept_port(pre_k: int, d: int) -> bool:
    """
    pre: 0 <= pre_k < 5
    pre: 0 <= d <= 9
    post: _
    """
    spy = Spy()
    p, t, loop = make(spy)
    prefix = PORT_PREFIX[pre_k]
    # int(<symbolic str>) is only ever enumerated by the engine, so the last digit is chosen
    # by symbolic index into a concrete table (the engine forks per digit)
    txt = prefix + DIGS[d]
    port = (int(prefix) if prefix else 0) * 10 + d
    _request(p, "gemini://h:" + txt + "/")
    if port > 65535:
        loop.run_ready()
        return V(len(spy.calls) == 0 and _status(t) == b"59")     # not a port: refused
    return V(_accepted(p, t, loop, spy, "h", port, "/", ""))


def accept_path(sk: int, c: int, h1: int, h2: int) -> bool:
    """
    pre: 0 <= sk < 5
    pre: is_pchar(c) and is_hex(h1) and is_hex(h2)
    post: _
    """
    spy = Spy()
    p, t, loop = make(spy)
    c = chr(c)
    if sk == 0:
        path_txt, exp = "", "/"
    elif sk == 1:
        path_txt = exp = "/" + c
    elif sk == 2:
        path_txt = exp = "/d" + c + "/f"
    elif sk == 3:
        path_txt = exp = "/p%" + chr(h1) + chr(h2) + "/" + c + "q"
    else:
        path_txt = exp = "/a/" + c + "/"
    _request(p, "gemini://h" + path_txt)
    return V(_accepted(p, t, loop, spy, "h", 1965, exp, ""))


def accept_path2(sk: int, c: int, d: int, h1: int) -> bool:
    """
    pre: 0 <= sk < 3
    pre: is_pchar(c) and is_pchar(d) and is_hex(h1)
    post: _
    """
    spy = Spy()
    p, t, loop = make(spy)
    c, d = chr(c), chr(d)
    path = ["/" + c + d, "/d" + c + "/" + d + "f", "/%4" + chr(h1) + c + "/" + d][sk]
    _request(p, "gemini://h" + path + "?k=v")
    return V(_accepted(p, t, loop, spy, "h", 1965, path, "k=v"))


def accept_query(sk: int, c: int, d: int) -> bool:
    """
    pre: 0 <= sk < 3
    pre: is_qchar(c) and is_qchar(d)
    post: _
    """
    spy = Spy()
    p, t, loop = make(spy)
    c = chr(c)
    d = chr(d)
    q = [c, "k=" + c + "&" + d, c + "%20" + d][sk]
    path = ["", "/", "/p"][sk]
    _request(p, "gemini://h" + path + "?" + q)
    return V(_accepted(p, t, loop, spy, "h", 1965, path or "/", q))


# ---------------------------------------------------------------------------------------
# must-reject: systematic corruptions with symbolic content
# ---------------------------------------------------------------------------------------
def _refused(p, t, loop, spy, up=None, want=b"59"):
    loop.run_ready()
    if spy.calls or (up is not None and up.calls):
        return False
    return _status(t) == want and t.closed >= 1


def reject_scheme(c: int, d: int, two: bool) -> bool:
    """
    pre: is_ascii_free(c) and is_ascii_free(d)
    post: _
    """
    spy = Spy()
    p, t, loop = make(spy)
    scheme = "gemin" + chr(c) + (chr(d) if two else "")
    if scheme.lower() == "gemini":
        return True          # the acceptable spelling (upper-case variant: grey zone)
    _request(p, scheme + "://h/")
    return V(_refused(p, t, loop, spy))


def reject_nohost(k: int, c: int, has: bool) -> bool:
    """
    pre: 0 <= k < 6
    pre: is_ascii_free(c)
    post: _
    """
    spy = Spy()
    p, t, loop = make(spy)
    c = chr(c) if has else ""
    url = ["gemini://", "gemini:///" + c, "gemini://:1965/" + c, "gemini:/h/" + c, "gemini:h" + c,
           "gemini://?" + c][k]
    _request(p, url)
    return V(_refused(p, t, loop, spy))


def reject_userinfo(k: int, u: int, w: int, hi: bool) -> bool:
    """
    pre: 0 <= k < 2
    pre: is_ascii_free(u) and u != 0x2f and u != 0x3f and u != 0x23
    pre: is_ascii_free(w) and w != 0x2f and w != 0x3f and w != 0x23
    post: _
    """
    spy = Spy()
    p, t, loop = make(spy)
    if k == 0 and u == 0x3a and not hi:
        return True          # "gemini://:@h/": empty user and empty password -- grey zone
    uu = "\u00e9" if hi else chr(u)
    url = ["gemini://" + uu + "@h/", "gemini://" + uu + ":" + chr(w) + "@h/"][k]
    _request(p, url)
    return V(_refused(p, t, loop, spy))


def reject_fragment(k: int, f: int) -> bool:
    """
    pre: 0 <= k < 3
    pre: is_scalar(f)
    post: _
    """
    spy = Spy()
    p, t, loop = make(spy)
    f = chr(f)
    url = ["gemini://h/#" + f, "gemini://h/p?q#" + f, "gemini://h#" + f][k]
    _request(p, url)
    return V(_refused(p, t, loop, spy))


def reject_utf8(b: bytes, pos: int) -> bool:
    """
    pre: len(b) == 1 and b[0] >= 0x80
    pre: 0 <= pos <= 3
    post: _
    """
    spy = Spy()
    p, t, loop = make(spy)
    line = b"gemini://h/abc"
    k = 11 + pos
    data = line[:k] + b + line[k:] + b"\r\n"
    p.data_received(data)
    return V(_refused(p, t, loop, spy))


def is_talpha(i):
    # 0-9 + - _ space ; = a
    return is_dig(i) or i == 0x2b or i == 0x2d or i == 0x5f or i == 0x20 or i == 0x3b or i == 0x3d or i == 0x61


def titan_size(a: int, b: int, n: int, uploads: bool) -> bool:
    """
    pre: 0 <= n <= 2
    pre: is_talpha(a) and is_talpha(b)
    post: _
    """
    spy = Spy()
    up = UploadSpy() if uploads else None
    p, t, loop = make(spy, None, up)
    v = (chr(a) if n >= 1 else "") + (chr(b) if n >= 2 else "")
    p.data_received(mk(("titan://h/f;size=" + v).encode("ascii"), b"\r\n"))
    loop.run_ready()
    if not uploads:
        return V(_refused(p, t, loop, spy, up, b"50"))
    v0 = v.split(";")[0]
    digits_only = len(v0) > 0 and all(0x30 <= ord(ch) <= 0x39 for ch in v0)
    if digits_only:
        size = 0
        for ch in v0:
            size = size * 10 + (ord(ch) - 48)
        if size == 0:
            return V(len(up.calls) == 1 and up.calls[0].size == 0 and not spy.calls)
        # waits for content: nothing dispatched, nothing refused; once exactly `size` bytes have arrived
        # the upload handler sees the declared size
        if len(up.calls) != 0 or t.closed != 0:
            return V(False)
        p.data_received(mk(Fill(size)))
        loop.run_ready()
        return V(len(up.calls) == 1 and up.calls[0].size == size and not spy.calls)
    # grey zone (undecided): whitespace-padded values, '+N', '-0'
    if v0.strip() != v0:
        return True
    if v0[:1] == "+" and len(v0) == 2 and 0x30 <= ord(v0[1]) <= 0x39:
        return True
    if v0 == "-0":
        return True
    return V(_refused(p, t, loop, spy, up, b"59"))


def titan_noparams(k: int, c: int) -> bool:
    """
    pre: 0 <= k < 4
    pre: 0x20 <= c <= 0x7e
    post: _
    """
    spy = Spy()
    up = UploadSpy()
    p, t, loop = make(spy, None, up)
    c = chr(c)
    if k == 0 and c == ";":
        return True
    if k == 3 and c == "s":
        return True
    url = ["titan://h/f" + c, "titan://h/f;mime=" + c, "titan://h/f;siz" + c + "=1",
           "titan://h/f;" + c][k]
    if k == 2 and c == "e":
        return True          # that spells size=1, a valid request
    _request(p, url)
    return V(_refused(p, t, loop, spy, up, b"59"))


CP = "code point"
OBLIGATIONS += [
    Ob("len_exact", len_exact, quick=120, thorough=300,
       symbolic="7 URL shapes (filler in path / query with empty path / host / host+slash / IPv6+port+query / params+query / "
                "upper-case host + pct-encoding) x total line length 1021..1026 bytes, by symbolic index",
       functions=["GeminiServerProtocol.data_received", "GeminiRequest.from_line", "validate_url", "parse_url"],
       note="discrete: concrete lines at the exact limit"),
    Ob("accept_host", accept_host, quick=150, thorough=600,
       symbolic="1 host character as a symbolic code point: any reg-name character (printable ASCII minus gen-delims and excluded characters) | IPv4 digit | IPv6 hex digit",
       enum="3 host forms x 3 port forms",
       functions=["GeminiServerProtocol._handle_gemini_request", "_route_request", "GeminiRequest.from_line",
                  "validate_url", "parse_url", "urllib.parse.urlparse"]),
    Ob("accept_port", accept_port, quick=150, thorough=600,
       symbolic="last port digit 0..9 (symbolic index) after prefix in {'', 1, 196, 6553, 9999}: covers 0..19, 1960..1969, 65530..65539, 99990..", note="discrete dimension: int(str) is enumerated by the engine, not reasoned about",
       functions=["_handle_gemini_request", "parse_url"]),
    Ob("accept_path", accept_path, quick=150, thorough=600,
       symbolic="1 pchar (any unreserved / sub-delim / ':' '@' code point) + 2 hex digits of a pct-encoded triple", enum="5 path shapes",
       functions=["_handle_gemini_request", "parse_url"]),
    Ob("accept_path2", accept_path2, quick=600, thorough=1500, tiers=("thorough",),
       symbolic="2 path characters (any pchar code point) + 1 hex digit, 3 path shapes, with a query", functions=["_handle_gemini_request", "parse_url"]),
    Ob("accept_query", accept_query, quick=150, thorough=600,
       symbolic="2 query characters (pchar | '/' | '?')", enum="3 query shapes",
       functions=["_handle_gemini_request", "parse_url"]),
    Ob("reject_scheme", reject_scheme, quick=120, thorough=600,
       symbolic="scheme = 'gemin' + 1..2 characters, any ASCII code point",
       functions=["_handle_gemini_request", "parse_url"],
       outside=["TAB/CR/LF (removed by urllib.parse; grey zone)"]),
    Ob("reject_nohost", reject_nohost, quick=120, thorough=600,
       symbolic="0..1 character (any ASCII code point) after 6 host-less skeletons",
       functions=["_handle_gemini_request", "parse_url"]),
    Ob("reject_userinfo", reject_userinfo, quick=300, thorough=600,
       symbolic="user (1 char: any ASCII code point except / ? #, or the concrete non-ASCII letter e-acute), password (1 ASCII char)",
       functions=["_handle_gemini_request", "parse_url"], outside=["empty user-info '@' (grey zone)"]),
    Ob("reject_fragment", reject_fragment, quick=120, thorough=600,
       symbolic="1 fragment character, any Unicode scalar value", enum="3 URL shapes",
       functions=["_handle_gemini_request", "parse_url"], outside=["empty fragment '#' (grey zone)"]),
    Ob("reject_utf8", reject_utf8, quick=120, thorough=600,
       symbolic="1 byte >= 0x80 at symbolic position 0..3 of the path",
       functions=["GeminiServerProtocol.data_received"]),
    Ob("titan_size", titan_size, quick=150, thorough=600,
       symbolic="size parameter value: 0..2 characters over '0-9 + - _ space ; = a'; uploads enabled flag",
       functions=["_handle_titan_url", "TitanRequest.from_line", "_parse_titan_params"],
       outside=["'+N', '-0', whitespace-padded and non-ASCII digits (grey zone: undecided)"]),
    Ob("titan_noparams", titan_noparams, quick=120, thorough=600,
       symbolic="1 printable ASCII character in 4 malformed parameter skeletons",
       functions=["_handle_titan_url", "TitanRequest.from_line", "_parse_titan_params"]),
]
