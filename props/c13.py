"""C13 - client calls always terminate with a faithful response or a clear error"""
import codecs
import encodings.aliases

import nauyaca.protocol.request  # noqa: F401
from nauyaca.protocol.constants import MAX_RESPONSE_BODY_SIZE

from vf import TIER, Ob, V, pick
from vf.client import ProtoRun
from vf.symbuf import Fill, SymBuf, mk

STCH = "0123456789 +-x"          # alphabet of the status field positions (discrete)
_names = set(encodings.aliases.aliases.keys()) | set(encodings.aliases.aliases.values())
if TIER == "quick":
    # one spelling per distinct codec (alias normalisation is Python's, not nauyaca's)
    _seen, _uniq = set(), []
    for _n in sorted(_names):
        try:
            _c = codecs.lookup(_n).name
        except LookupError:
            _c = "?" + _n
        if _c not in _seen:
            _seen.add(_c)
            _uniq.append(_n)
    _names = _uniq
LABELS = sorted(_names) + ["", " ", "nope", "utf-8x", "UTF-8", "Latin-1", '"utf-8"', "'iso-8859-1'", "utf8 ", "idna",
                           "punycode", "undefined", "unicode_escape", "raw_unicode_escape", "a\x00b", "utf-8\x00",
                           "utf-16", "utf-32", "utf-7", "utf-8-sig"]
BODIES = pick([b"\xe9a", b"\xff\xfe\x00"], [b"", b"hi", b"\xe9a", b"\xff\xfe\x00"])
NLAB = len(LABELS)


def _eq_body(got, want_bytes):
    if isinstance(got, SymBuf):
        return got.same_as(want_bytes)
    return got == want_bytes


def status_field(a: int, b: int, k: int, titan: bool) -> bool:
    """
    pre: 0 <= a < len(STCH) and 0 <= b < len(STCH)
    pre: 0 <= k <= 3
    post: _
    """
    # k: 0 two characters, 1 one character, 2 three characters, 3 no separator/meta at all
    field = [STCH[a] + STCH[b], STCH[a], STCH[a] + STCH[b] + "0", STCH[a] + STCH[b]][k]
    line = field.encode() + (b"" if k == 3 else b" text/plain") + b"\r\n"
    r = ProtoRun(titan)
    r.feed(line + b"hello")
    r.close_clean()
    o = r.outcome()
    if o[0] == "pending" or r.escaped is not None:
        return V(False)
    digits = all(ch in "0123456789" for ch in field)
    valid = digits and len(field) == 2 and 10 <= int(field) <= 69
    if valid:
        if o[0] != "result":
            return V(False)
        resp = o[1]
        st = int(field)
        if resp.status != st:
            return V(False)
        if 20 <= st <= 29:
            return V(resp.body == "hello")
        return V(resp.body is None)
    # not a two-digit status in range: must not be delivered as a 10..69 response unless the
    # field is a grey-zone spelling of such a number (leading zero / sign / space), undecided
    if o[0] == "error":
        return V(True)
    return V(10 <= o[1].status <= 69 and (o[1].body is None) == (not 20 <= o[1].status <= 29) and not digits or
             (digits and len(field) == 3))


STAT = [b"20 ", b"51 ", b"31 "]


def _termination(n, m, c1, c2, term, at, st, titan):
    # server stream: "<status> " + meta of m filler characters + CRLF + body of n filler bytes
    # (m == 0 with status 20 is a text response with the default charset, m > 0 a binary one);
    # delivered up to offset `at`, then the server closes cleanly (term 0) or resets (term 1)
    stream = mk(STAT[st], Fill(m), b"\r\n", Fill(n))
    total = len(stream)
    if at > total:
        at = total
    sent, _ = stream.cut(at)
    if c2 > at:
        c2 = at
    if c1 > c2:
        c1 = c2
    r = ProtoRun(titan)
    r.feed(sent, [c1, c2])
    r0 = ProtoRun(titan)            # single-read baseline: same bytes, same ending
    r0.feed(sent)
    for x in (r, r0):
        if term == 0:
            x.close_clean()
        else:
            x.reset()
    o, o0 = r.outcome(), r0.outcome()
    if o[0] == "pending" or r.escaped is not None or o0[0] == "pending":
        return V(False)                      # the call would hang until its timeout
    if o[0] != o0[0]:
        return V(False)                      # depends on segmentation
    hl = 3 + m + 2
    if o[0] == "result":
        resp = o[1]
        if at < hl:
            return V(False)                  # no complete header was ever received
        want_status = [20, 51, 31][st]
        if resp.status != want_status or o0[1].status != want_status:
            return V(False)
        if st == 0:
            body = resp.body
            if isinstance(body, str):
                if m != 0:
                    return V(False)          # binary type handed back as text
                body = body.encode("utf-8")
            if not isinstance(body, SymBuf):
                body = SymBuf([body])
            return V(len(body) == at - hl and body.same_as(mk(Fill(at - hl))))
        return V(resp.body is None)
    # error outcome: acceptable when the header never completed or the connection was reset
    if at >= hl and term == 0:
        return V(False)                      # a complete, cleanly closed response turned into an error
    return V(True)


def crlf_in_body(n: int, m: int, c1: int, c2: int, titan: bool) -> bool:
    """
    pre: 0 <= n <= 50 and 1 <= m <= 40 and 0 <= c1 <= c2 <= n + m + 12
    post: _
    """
    # the body itself contains CRLFs: the header ends at the FIRST CRLF of the stream, wherever the reads are cut
    # (in particular between the CR and the LF of the header terminator)
    tail = b"\r\nZ\r\n"
    stream = mk(STAT[0], Fill(m), b"\r\n", Fill(n), tail)
    total = len(stream)
    if c2 > total:
        c2 = total
    if c1 > c2:
        c1 = c2
    r = ProtoRun(titan)
    r.feed(stream, [c1, c2])
    r.close_clean()
    o = r.outcome()
    if o[0] != "result" or r.escaped is not None:
        return V(False)
    resp = o[1]
    if resp.status != 20:
        return V(False)
    body = resp.body
    if isinstance(body, str):
        return V(False)                      # m >= 1: not a text type
    if not isinstance(body, SymBuf):
        body = SymBuf([body])
    return V(len(body) == n + len(tail) and body.same_as(mk(Fill(n), tail)))


def termination_success(n: int, m: int, c1: int, c2: int, term: int, at: int, titan: bool) -> bool:
    """
    pre: 0 <= n <= 3000 and 0 <= m <= 1100 and 0 <= c1 <= c2 <= at <= n + m + 5
    pre: 0 <= term <= 1
    post: _
    """
    return _termination(n, m, c1, c2, term, at, 0, titan)


def termination_error(n: int, m: int, c1: int, c2: int, term: int, at: int, titan: bool) -> bool:
    """
    pre: 0 <= n <= 3000 and 0 <= m <= 1100 and 0 <= c1 <= c2 <= at <= n + m + 5
    pre: 0 <= term <= 1
    post: _
    """
    return _termination(n, m, c1, c2, term, at, 1, titan)


def termination_redirect(n: int, m: int, c1: int, c2: int, term: int, at: int, titan: bool) -> bool:
    """
    pre: 0 <= n <= 3000 and 0 <= m <= 1100 and 0 <= c1 <= c2 <= at <= n + m + 5
    pre: 0 <= term <= 1
    post: _
    """
    return _termination(n, m, c1, c2, term, at, 2, titan)


def charset_labels(li: int, bi: int, titan: bool) -> bool:
    """
    pre: 0 <= li < NLAB and 0 <= bi < len(BODIES)
    post: _
    """
    label = LABELS[li]
    body = BODIES[bi]
    try:
        meta = ("text/plain; charset=" + label).encode("utf-8")
    except UnicodeEncodeError:
        return True
    if b"\r\n" in meta:
        return True
    r = ProtoRun(titan)
    r.feed(b"20 " + meta + b"\r\n" + body)
    r.close_clean()
    o = r.outcome()
    if o[0] == "pending" or r.escaped is not None:
        return V(False)
    # reference: declared charset, surrounding quotes/space removed, decides the text
    lab = label.strip().strip("\"'")
    try:
        want = body.decode(lab)
    except Exception:  # noqa: BLE001
        want = None
    if want is None:
        return V(o[0] == "error")
    return V(o[0] == "result" and o[1].body == want and o[1].status == 20)


def charset_char(c: int, titan: bool) -> bool:
    """
    pre: 0 <= c <= 0x7f
    pre: c != 13
    post: _
    """
    r = ProtoRun(titan)
    r.feed(b"20 text/plain; charset=" + chr(c).encode("ascii") + b"\r\nhi")
    r.close_clean()
    o = r.outcome()
    return V(o[0] != "pending" and r.escaped is None)


def header_bytes(b: bytes, pos: int, titan: bool) -> bool:
    """
    pre: 1 <= len(b) <= NB
    pre: 0 <= pos <= 2
    post: _
    """
    # arbitrary bytes inside the header (status area, meta, or right before CRLF)
    base = b"20 text/plain"
    k = [0, 3, 13][pos]
    r = ProtoRun(titan)
    r.feed(mk(base[:k], b, base[k:], b"\r\nhi"))
    r.close_clean()
    o = r.outcome()
    if o[0] == "pending" or r.escaped is not None:
        return V(False)
    if o[0] == "result":
        st = o[1].status
        return V(10 <= st <= 69 and ((o[1].body is not None) == (20 <= st <= 29)))
    return V(True)


def flood_without_crlf(n: int, c: int, titan: bool, kind: int) -> bool:
    """
    pre: 0 <= n <= CAP + 5000 and 0 <= c <= n and 0 <= kind <= 1
    post: _
    """
    # a server that streams bytes without ever finishing the header line is cut off at the cap as well
    r = ProtoRun(titan)
    stream = mk(Fill(n)) if kind == 0 else mk(b"20 text/gemini", Fill(n))
    r.feed(stream, [c])
    if len(stream) > CAP:
        o = r.outcome()
        return V(o[0] == "error" and r.t.closed >= 1)
    o = r.outcome()
    if o[0] != "pending":
        return V(False)                  # nothing to decide yet: still waiting for the header
    r.close_clean()
    return V(r.outcome()[0] == "error")


def size_cap(n: int, c: int, titan: bool) -> bool:
    """
    pre: 0 <= n <= CAP + 5000
    pre: 0 <= c <= n
    post: _
    """
    head = b"20 application/octet-stream\r\n"
    r = ProtoRun(titan)
    r.feed(mk(head, Fill(n)), [len(head) + c])
    over = n > CAP
    if over:
        # cut off at the cap: error delivered and transport closed without waiting for EOF
        o = r.outcome()
        return V(o[0] == "error" and r.t.closed >= 1)
    r.close_clean()
    o = r.outcome()
    if o[0] != "result":
        return V(False)
    body = o[1].body
    if not isinstance(body, SymBuf):
        body = SymBuf([body])
    return V(body.same_as(mk(Fill(n))))


def full_client(kind: int, n: int, at: int, entry: int) -> bool:
    """
    pre: 0 <= kind <= 2 and 0 <= n <= 2000 and 0 <= at <= n + 20 and 0 <= entry <= 2
    post: _
    """
    # the whole GeminiClient call (get / upload / delete) on the virtual-time loop: the server stops after
    # `at` bytes and then closes (0), resets (1) or stays silent (2)
    from vf.clientrun import Env
    env = Env(False)
    c = env.client
    c.timeout = 9
    loop = env.loop
    if entry == 0:
        coro = c.get("gemini://a.example/x", follow_redirects=False)
    elif entry == 1:
        coro = c.upload("gemini://a.example/up", b"DATA")
    else:
        coro = c.delete("gemini://a.example/up")
    task = loop.create_task(coro)
    task.run()
    if task.done() or len(env.conns) != 1:
        return V(False)
    t = env.conns[0]
    head = b"20 application/octet-stream\r\n"
    stream = mk(head, Fill(n))
    if at > len(stream):
        at = len(stream)
    part, _ = stream.cut(at)
    if part:
        t.proto.data_received(part)
    if kind == 0:
        t.proto.connection_lost(None)
    elif kind == 1:
        t.proto.connection_lost(ConnectionResetError("reset"))
    task.run()
    if kind <= 1:
        # the peer is gone: the call ends now, without waiting for the timeout
        if not task.done() or loop.now != 0:
            return V(False)
        exc = task.exception()
        if kind == 0 and at >= len(head):
            if exc is not None:
                return V(False)
            body = task.result().body
            if not isinstance(body, SymBuf):
                body = SymBuf([body])
            return V(task.result().status == 20 and body.same_as(mk(Fill(at - len(head)))) and t.closed >= 1)
        return V(exc is not None and t.closed >= 1)
    # silent server: still waiting just before the timeout, cut off at the timeout
    if task.done():
        return V(False)
    loop.advance(8)
    task.run()
    if task.done():
        return V(False)
    loop.advance(9)
    task.run()
    return V(task.done() and isinstance(task.exception(), TimeoutError) and t.closed >= 1)


CAP = MAX_RESPONSE_BODY_SIZE
NB = pick(1, 2)

META = {
    "files": ["src/nauyaca/client/protocol.py", "src/nauyaca/protocol/response.py", "src/nauyaca/protocol/constants.py"],
    "level": "model_checking",
    "explanation": ("Bounded symbolic execution of the real GeminiClientProtocol and TitanClientProtocol on a recording "
                    "transport and a hand-made future: server stream lengths, cut offsets, the offset at which the server "
                    "closes or resets and arbitrary header bytes are solver variables; the future must be resolved once "
                    "the connection is gone, with a faithful response or an exception, identically for every segmentation."),
    "assumptions": [
        "asyncio transport contract: no reads after close(); an exception escaping data_received is a fatal error and "
        "is reported through connection_lost(exc); an exception escaping connection_lost is only logged (the future "
        "stays unresolved -> the caller hangs until its timeout: counted as a failure)",
        "charset labels are a discrete dimension (codec lookup is C code): every name and alias Python knows plus unknown, "
        "quoted, padded, NUL-containing labels, each with 4 concrete bodies",
    ],
    "trusted": ["CrossHair 0.0.110 / z3 5.1", "Python codec registry executed for real"],
}

FN = ["GeminiClientProtocol.connection_made", "data_received", "_parse_header", "eof_received", "connection_lost", "_set_error",
      "TitanClientProtocol.(same methods)"]
ST = ["FakeTransport", "MiniFuture", "SymBuf"]
OBLIGATIONS = [
    Ob("status_field", status_field, quick=200, thorough=600,
       symbolic="status field: 1..3 characters by symbolic index into '0123456789 +-x', with/without meta; both protocol classes",
       functions=FN, stubs=ST, note="discrete: int(str) is enumerated by the engine"),
    Ob("crlf_in_body", crlf_in_body, quick=300, thorough=900,
       symbolic="meta length 1..40, body of 0..50 filler bytes followed by CRLF Z CRLF, two cut offsets anywhere (incl. between the CR "
                "and LF that end the header)", functions=FN, stubs=ST),
    Ob("termination_success", termination_success, quick=400, thorough=1500,
       symbolic="status 20; meta length 0..1100, body length 0..3000, two cut offsets, offset at which the server stops "
                "(anywhere incl. inside the header), clean close / reset, both protocol classes; relational against the single-read run",
       functions=FN, stubs=ST),
    Ob("termination_error", termination_error, quick=400, thorough=1500,
       symbolic="status 51; meta length 0..1100, body length 0..3000, two cut offsets, offset at which the server stops "
                "(anywhere incl. inside the header), clean close / reset, both protocol classes; relational against the single-read run",
       functions=FN, stubs=ST),
    Ob("termination_redirect", termination_redirect, quick=400, thorough=1500,
       symbolic="status 31; meta length 0..1100, body length 0..3000, two cut offsets, offset at which the server stops "
                "(anywhere incl. inside the header), clean close / reset, both protocol classes; relational against the single-read run",
       functions=FN, stubs=ST),
    Ob("charset_labels", charset_labels, quick=400, thorough=3600,
       symbolic="label index 0..%d, body index 0..3, protocol class" % (NLAB - 1), functions=FN, stubs=ST,
       note="discrete dimension"),
    Ob("charset_char", charset_char, quick=200, thorough=600,
       symbolic="1-character charset label, any ASCII code point", functions=FN, stubs=ST),
    Ob("header_bytes", header_bytes, quick=400, thorough=3600,
       symbolic="1 (quick) / 1..2 (thorough) unconstrained bytes at 3 header positions", functions=FN, stubs=ST),
    Ob("full_client", full_client, quick=300, thorough=900,
       symbolic="GeminiClient.get / upload / delete on the virtual-time loop: body length 0..2000, offset at which the server stops, "
                "then clean close / reset / silence until the timeout",
       functions=["GeminiClient.get", "_get_single", "upload", "delete"] + FN, stubs=ST + ["MiniLoop (virtual clock)", "scripted connector"]),
    Ob("flood_without_crlf", flood_without_crlf, quick=200, thorough=600,
       symbolic="0..cap+5000 bytes without any CRLF (bare filler, or after '20 text/gemini'), one cut offset, both protocol classes",
       functions=FN, stubs=ST),
    Ob("size_cap", size_cap, quick=120, thorough=600,
       symbolic="body length 0..cap+5000 (cap = 10 MiB), one cut offset", functions=FN, stubs=ST),
]
