"""C03 - TOFU: a pinned host is never accepted with a different certificate"""
import nauyaca.protocol.request  # noqa: F401
from nauyaca.security.tofu import CertificateChangedError

from vf import Ob, V, pick
from vf.clientrun import FPS, Env

HOSTS = ["a.example", "b.example"]
KEYS = [("a.example", 1965), ("a.example", 7000), ("b.example", 1965)]
CERT = [0, 1, 2, 3, "bad", "nossl", "nocert"]    # index into the real certificates (3 = long expired), or an unreadable one


def _url(key, path="/x"):
    h, p = key
    return "gemini://%s%s%s" % (h, "" if p == 1965 else ":%d" % p, path)


def _call(env, op, key):
    c = env.client
    if op == 0:
        return env.run(c.get(_url(key), follow_redirects=False))
    if op == 1:
        return env.run(c.get(_url(key), follow_redirects=True))
    if op == 2:
        return env.run(c.upload(_url(key), b"DATA", token="tok"))
    return env.run(c.delete(_url(key), token="tok"))


def _step(p0, p1, p2, op, ti, ci, tofu_on):
    # (contract on the partitioned wrappers)
    env = Env(tofu_on)
    for key, p in zip(KEYS, (p0, p1, p2)):
        if p:
            env.pin(key[0], key[1], p - 1)
    before = env.pins()
    target = KEYS[ti]
    env.cert_for[target] = CERT[ci]
    res, exc = _call(env, op, target)
    after = env.pins()
    others_same = all(after.get(k) == before.get(k) for k in KEYS if k != target)
    if not others_same or any(k not in KEYS for k in after):
        return V(False)                    # pins of different host:port pairs never influence each other
    if not tofu_on:
        return V(res is not None and exc is None and after == before)
    presented = CERT[ci]
    pinned = before.get(target)
    if not isinstance(presented, int):
        # certificate cannot be read or interpreted: refused, never treated as unpinned or trusted
        return V(res is None and exc is not None and after == before)
    fp = FPS[presented]
    if pinned is not None and pinned != fp:
        ok = (isinstance(exc, CertificateChangedError) and res is None and after == before
              and exc.old_fingerprint == pinned and exc.new_fingerprint == fp and pinned in str(exc) and fp in str(exc))
        return V(ok)
    if pinned is None:
        return V(res is not None and exc is None and after.get(target) == fp and res.status == 20)
    return V(res is not None and exc is None and after == before and res.status == 20)


def step_get(p0: int, p1: int, p2: int, ti: int, ci: int, tofu_on: bool) -> bool:
    """
    pre: 0 <= p0 <= 2 and 0 <= p1 <= 2 and 0 <= p2 <= 2
    pre: 0 <= ti <= 2 and 0 <= ci < len(CERT)
    post: _
    """
    return _step(p0, p1, p2, 0, ti, ci, tofu_on)


def step_get_follow(p0: int, p1: int, p2: int, ti: int, ci: int, tofu_on: bool) -> bool:
    """
    pre: 0 <= p0 <= 2 and 0 <= p1 <= 2 and 0 <= p2 <= 2
    pre: 0 <= ti <= 2 and 0 <= ci < len(CERT)
    post: _
    """
    return _step(p0, p1, p2, 1, ti, ci, tofu_on)


def step_upload(p0: int, p1: int, p2: int, ti: int, ci: int, tofu_on: bool) -> bool:
    """
    pre: 0 <= p0 <= 2 and 0 <= p1 <= 2 and 0 <= p2 <= 2
    pre: 0 <= ti <= 2 and 0 <= ci < len(CERT)
    post: _
    """
    return _step(p0, p1, p2, 2, ti, ci, tofu_on)


def step_delete(p0: int, p1: int, p2: int, ti: int, ci: int, tofu_on: bool) -> bool:
    """
    pre: 0 <= p0 <= 2 and 0 <= p1 <= 2 and 0 <= p2 <= 2
    pre: 0 <= ti <= 2 and 0 <= ci < len(CERT)
    post: _
    """
    return _step(p0, p1, p2, 3, ti, ci, tofu_on)


def step_warm(w: int, p: int, ci: int, op: int, ti: int, how: int) -> bool:
    """
    pre: 0 <= w <= 1 and 0 <= p <= 2 and 0 <= ci <= 4 and 0 <= op <= 3 and 0 <= ti <= 1 and 0 <= how <= 1
    post: _
    """
    # the inductive step again, but on a client that has already talked to the target: whatever the client remembers
    # from the earlier exchange (memoised verdicts, cached fingerprints) must not outlive a change of the pin
    from vf.clientrun import CERTS
    env = Env(True)
    target = KEYS[ti]
    env.cert_for[target] = w
    res0, exc0 = _call(env, 0 if how == 0 else 2, target)
    if exc0 is not None or res0 is None or env.pins().get(target) != FPS[w]:
        return V(False)                                   # first contact: pins what was presented
    db = env.client.tofu_db
    if p == 0:
        db.revoke(target[0], target[1])
    else:
        db.trust(target[0], target[1], CERTS[p - 1])
    before = env.pins()
    pinned = before.get(target)
    if pinned != (None if p == 0 else FPS[p - 1]):
        return V(False)
    env.cert_for[target] = CERT[ci]
    res, exc = _call(env, op, target)
    after = env.pins()
    presented = CERT[ci]
    if not isinstance(presented, int):
        return V(res is None and exc is not None and after == before)
    fp = FPS[presented]
    if pinned is not None and pinned != fp:
        return V(isinstance(exc, CertificateChangedError) and res is None and after == before)
    if pinned is None:
        return V(res is not None and exc is None and after.get(target) == fp and res.status == 20)
    return V(res is not None and exc is None and after == before and res.status == 20)


def _apply(env, model, a, key, cert):
    """one operation on the real client/store and on the abstract pin-map ``model``; returns ok"""
    c = env.client
    db = c.tofu_db
    if a <= 1:
        env.cert_for[key] = cert
        res, exc = env.run(c.get(_url(key), follow_redirects=False)) if a == 0 else env.run(c.upload(_url(key), b"D"))
        fp = FPS[cert]
        if key in model and model[key] != fp:
            if not isinstance(exc, CertificateChangedError) or res is not None:
                return False
        else:
            if exc is not None or res is None:
                return False
            model[key] = fp
    elif a == 2:
        from vf.clientrun import CERTS
        db.trust(key[0], key[1], CERTS[cert])
        model[key] = FPS[cert]
    elif a == 3:
        db.revoke(key[0], key[1])
        model.pop(key, None)
    elif a == 4:
        db.clear()
        model.clear()
    return env.pins() == model


def history(a1: int, k1: int, c1: int, a2: int, k2: int, c2: int, a3: int, k3: int, c3: int) -> bool:
    """
    pre: 0 <= a1 <= 4 and 0 <= a2 <= 4 and 0 <= a3 <= 4
    pre: 0 <= k1 <= 2 and 0 <= k2 <= 2 and 0 <= k3 <= 2
    pre: 0 <= c1 <= 1 and 0 <= c2 <= 1 and 0 <= c3 <= 1
    pre: HLEN >= 3 or a3 == 4
    post: _
    """
    env = Env(True)
    model = {}
    for a, k, c in ((a1, k1, c1), (a2, k2, c2), (a3, k3, c3)):
        if not _apply(env, model, a, KEYS[k], c):
            return V(False)
    return V(True)


def redirect_hop(p_first: int, p_second: int, c_second: int, same_host: bool) -> bool:
    """
    pre: 0 <= p_first <= 2 and 0 <= p_second <= 2 and 0 <= c_second <= 4
    post: _
    """
    # hop 1 (a.example) presents certificate 0 and redirects to hop 2; hop 2 presents c_second
    env = Env(True)
    k1 = KEYS[0]
    k2 = KEYS[1] if same_host else KEYS[2]
    if p_first:
        env.pin(k1[0], k1[1], 0)             # hop 1 is either unpinned or pinned to what it presents
    if p_second:
        env.pin(k2[0], k2[1], p_second - 1)
    env.cert_for[k1] = 0
    env.cert_for[k2] = CERT[c_second]
    env.answer_for[(k1[0], k1[1], None)] = ("31 " + _url(k2, "/final") + "\r\n").encode()
    before = env.pins()
    res, exc = env.run(env.client.get(_url(k1, "/start")))
    after = env.pins()
    presented = CERT[c_second]
    pinned2 = before.get(k2)
    if len(env.conns) != 2:
        return V(False)
    if not isinstance(presented, int):
        return V(res is None and exc is not None and after.get(k2) == before.get(k2))
    if pinned2 is not None and pinned2 != FPS[presented]:
        return V(isinstance(exc, CertificateChangedError) and res is None and after.get(k2) == pinned2)
    return V(res is not None and res.status == 20 and after.get(k2) == FPS[presented] and after.get(k1) == FPS[0])


HLEN = pick(2, 3)

META = {
    "files": ["src/nauyaca/client/session.py", "src/nauyaca/client/protocol.py", "src/nauyaca/security/tofu.py",
              "src/nauyaca/security/certificates.py"],
    "level": "model_checking",
    "explanation": ("Bounded symbolic execution of the real GeminiClient.get/upload/delete (+ redirect following) with the real "
                    "TOFUDatabase on a contract model of sqlite3 and scripted peers presenting real EC / Ed25519 / RSA certificates "
                    "or unreadable ones: the pre-store, the operation, the target host:port and the presented certificate are "
                    "solver-chosen; an inductive step from an arbitrary pin state plus histories of 2 (quick) / 3 (thorough) "
                    "operations compared with an abstract pin map."),
    "assumptions": [
        "TLS handshake and X.509 parsing are C/Rust code: the scripted peer injects DER bytes at ssl_object.getpeercert(); "
        "'unreadable' is DER that cryptography rejects, a missing ssl_object, or an empty peer certificate",
        "create_connection calls connection_made when the handshake is complete (asyncio contract)",
        "ModelSQL contract as in C12",
        "all dimensions here are discrete (which pin, which certificate, which operation); the engine's contribution is lazy case splitting and exhaustion",
    ],
    "trusted": ["CrossHair 0.0.110 / z3 5.1", "cryptography X.509 parser", "sha256"],
}

FN = ["GeminiClient.get", "_get_single", "_get_with_redirects", "upload", "delete", "GeminiClientProtocol.get_peer_certificate",
      "TitanClientProtocol.get_peer_certificate", "TOFUDatabase.verify", "trust", "revoke", "clear", "get_host_info",
      "get_certificate_fingerprint", "CertificateChangedError"]
STUBS = ["MiniLoop.create_connection -> scripted peer", "ModelSQL", "FakeDatetime"]
OBLIGATIONS = [
    Ob("step_warm", step_warm, quick=600, thorough=1800,
       symbolic="a client that already fetched from / uploaded to the target (certificate w accepted and pinned), then the pin is "
                "revoked or replaced through the store, then any operation with any presented certificate (2 x 3 x 5 x 4 x 2 x 2)",
       functions=FN, stubs=STUBS),
    Ob("step_get", step_get, quick=500, thorough=1200,
       symbolic="entry point: get without redirect following; pins of 3 host:port keys (none / cert A / B), target key, "
                "presented certificate (A / B / C / an expired one / unparseable DER / no ssl_object / no certificate), TOFU on/off",
       functions=FN, stubs=STUBS),
    Ob("step_get_follow", step_get_follow, quick=500, thorough=1200,
       symbolic="entry point: get with redirect following; pins of 3 host:port keys (none / cert A / B), target key, "
                "presented certificate (A / B / C / an expired one / unparseable DER / no ssl_object / no certificate), TOFU on/off",
       functions=FN, stubs=STUBS),
    Ob("step_upload", step_upload, quick=500, thorough=1200,
       symbolic="entry point: upload (Titan); pins of 3 host:port keys (none / cert A / B), target key, "
                "presented certificate (A / B / C / an expired one / unparseable DER / no ssl_object / no certificate), TOFU on/off",
       functions=FN, stubs=STUBS),
    Ob("step_delete", step_delete, quick=500, thorough=1200,
       symbolic="entry point: delete (Titan, zero bytes); pins of 3 host:port keys (none / cert A / B), target key, "
                "presented certificate (A / B / C / an expired one / unparseable DER / no ssl_object / no certificate), TOFU on/off",
       functions=FN, stubs=STUBS),
    Ob("history", history, quick=700, thorough=1500,
       symbolic="sequence of 2 (quick) / 3 (thorough) operations over {get, upload, trust, revoke, clear} x 3 keys x 2 certificates, "
                "compared step by step with an abstract pin map",
       functions=FN, stubs=STUBS, outside=["longer histories (covered by the inductive step obligation)"]),
    Ob("redirect_hop", redirect_hop, quick=300, thorough=900,
       symbolic="pin state of both hops, certificate presented by the second hop (3 real / unreadable), same or different host",
       functions=FN, stubs=STUBS),
]
