"""C06 - responses arrive complete and unaltered, for any size, on both TLS backends"""
import nauyaca.protocol.request  # noqa: F401
from nauyaca.protocol.response import GeminiResponse

from vf import CONCRETE, Ob, V, pick
from vf.server import make, wire_response
from vf.symbuf import Fill, SymBuf, TextBody, _small, mk
from vf.tlsserver import feed, make_tls

MAXFILE = 100 * 1024 * 1024
PUMP_MAX = pick(300_000, 2 * 1024 * 1024)
HEADER = b"20 text/gemini\r\n"
WMAX = pick(1, 3)


def _resp(n, x, kind):
    """kind 0: bytes body of n bytes; kind 1: str body of n characters, x of them 2-byte characters
    (so n characters encode to n + x bytes).  Symbolic runs carry the two lengths separately
    (TextBody); concrete replays use real str/bytes."""
    if CONCRETE:
        if kind == 0:
            body = b"a" * n
            return GeminiResponse(20, "text/gemini", body), body
        text = "é" * x + "a" * (n - x)
        return GeminiResponse(20, "text/gemini", text), text.encode("utf-8")
    if kind == 0:
        return GeminiResponse(20, "text/gemini", mk(Fill(n))), mk(Fill(n))
    buf = mk(Fill(n + x))
    return GeminiResponse(20, "text/gemini", TextBody(n, buf)), buf


def _same(data, want):
    if CONCRETE:
        return data.concrete() == HEADER + want
    return data.same_as(mk(HEADER) + want)


def plain(n: int, x: int, kind: int) -> bool:
    """
    pre: 0 <= n <= MAXFILE and 0 <= x <= n
    pre: 0 <= kind <= 1
    post: _
    """
    resp, want = _resp(n, x, kind)
    p, t, loop = make(lambda r: resp)
    p.data_received(b"gemini://h/\r\n")
    loop.run_ready()
    data, closes, late = wire_response(t)
    return V(closes >= 1 and late == 0 and _same(data, want))


def tls_pump(n: int, x: int, kind: int) -> bool:
    """
    pre: 0 <= n <= PUMP_MAX and 0 <= x <= n and x <= 70000
    pre: 0 <= kind <= 1
    post: _
    """
    resp, want = _resp(n, x, kind)
    outer, tcp, loop, conn, made = make_tls(lambda r: resp)
    feed(outer, tcp, [("hs",)])
    feed(outer, tcp, [("app", b"gemini://h/\r\n")])
    loop.run_ready()
    plain_, close_seen, after, all_out = conn.delivered(tcp)
    return V(tcp.closed >= 1 and after == 0 and close_seen and _same(plain_, want))


HW = [0, 65536, 1 << 20]


def tls_backpressure(n: int, x: int, kind: int, hw: int, drains: int) -> bool:
    """
    pre: 0 <= n <= PUMP_MAX and 0 <= x <= n and x <= 70000
    pre: 0 <= kind <= 1 and 0 <= hw < len(HW) and 0 <= drains <= 2
    post: _
    """
    # a slow reader: the TCP transport reports its buffer above the high-water mark (pause_writing) while the response
    # is being pumped and the reader catches up (resume_writing) only later -- possibly only after the server has
    # already asked for the connection to be closed; every byte and the close_notify must still reach the peer
    resp, want = _resp(n, x, kind)
    outer, tcp, loop, conn, made = make_tls(lambda r: resp, high_water=HW[hw])
    feed(outer, tcp, [("hs",)])
    if drains >= 1:
        tcp.drain()
    feed(outer, tcp, [("app", b"gemini://h/\r\n")])
    loop.run_ready()
    if drains >= 2:
        tcp.drain()
        loop.run_ready()
    tcp.drain()                       # the reader eventually catches up; asyncio then reports the connection lost
    loop.run_ready()
    outer.connection_lost(None)
    plain_, close_seen, after, all_out = conn.delivered(tcp)
    return V(tcp.closed >= 1 and close_seen and _same(plain_, want))


BIG = [13 * 1024 * 1024 + 1, 24 * 1024 * 1024 + 5, 64 * 1024 * 1024, MAXFILE]


def tls_pump_large(w: int, kind: int) -> bool:
    """
    pre: 0 <= w <= WMAX and 0 <= kind <= 1
    post: _
    """
    # very large bodies at concrete sizes (the pump loops once per 8192 bytes, so a symbolic length of this
    # magnitude would cost one solver query per iteration): a discrete dimension, chosen by symbolic index
    total = BIG[_small(w, len(BIG) - 1)]      # fork into a concrete size (a symbolic index would make the size an ite-term)
    resp, want = _resp(total, 7 if kind == 1 else 0, kind)
    outer, tcp, loop, conn, made = make_tls(lambda r: resp)
    feed(outer, tcp, [("hs",)])
    feed(outer, tcp, [("app", b"gemini://h/\r\n")])
    loop.run_ready()
    plain_, close_seen, after, all_out = conn.delivered(tcp)
    return V(tcp.closed >= 1 and after == 0 and close_seen and _same(plain_, want))


def tls_pump_real(n, x, kind):
    """L2: same scenario over two real PyOpenSSL memory-BIO connections."""
    from vf.real_tls import run_tls_exchange
    body = b"a" * n if kind == 0 else "é" * x + "a" * (n - x)
    want = HEADER + (body if isinstance(body, bytes) else body.encode("utf-8"))
    got, closed, eof = run_tls_exchange(lambda r: GeminiResponse(20, "text/gemini", body), b"gemini://h/\r\n")
    return got == want and closed


def both(n: int, x: int, kind: int) -> bool:
    """
    pre: 0 <= n <= 40000 and 0 <= x <= n
    pre: 0 <= kind <= 1
    post: _
    """
    resp, want = _resp(n, x, kind)
    p, t, loop = make(lambda r: resp)
    p.data_received(b"gemini://h/\r\n")
    loop.run_ready()
    d1, c1, l1 = wire_response(t)
    resp2, _ = _resp(n, x, kind)
    outer, tcp, loop2, conn, made = make_tls(lambda r: resp2)
    feed(outer, tcp, [("hs",)])
    feed(outer, tcp, [("app", b"gemini://h/\r\n")])
    loop2.run_ready()
    d2, close_seen, after, all_out = conn.delivered(tcp)
    same = d1.concrete() == d2.concrete() if CONCRETE else d1.same_as(d2)
    return V(same and c1 >= 1 and tcp.closed >= 1 and close_seen and after == 0 and l1 == 0)


META = {
    "files": ["src/nauyaca/server/protocol.py", "src/nauyaca/server/tls_protocol.py"],
    "level": "model_checking",
    "explanation": ("Bounded symbolic execution of the real _send_response and of the real TLSTransportWrapper.write/close + "
                    "TLSServerProtocol._flush_outgoing pump against a contract stub of OpenSSL.SSL.Connection. The body "
                    "length is a solver integer: every length 0..100 MiB on the plain path, every length 0..300 000 "
                    "(quick) / 0..2 MiB (thorough) through the pump, including every TLS-record and 8192-byte boundary."),
    "assumptions": [
        "StubTLSConn: send(d) accepts exactly min(len d, 16384) bytes (measured pyOpenSSL behaviour over a memory BIO), "
        "sendall accepts everything, bio_read(n) returns min(n, pending) bytes, shutdown queues close_notify",
        "asyncio's SSL transport (stdlib backend) delivers what write() accepted; OpenSSL encrypts what send() accepted",
        "pump sizes above the stated bound up to max_file_size are outside the claim (one solver fork per 8192 bytes)",
        "client reader speed only affects kernel buffers below the transport contract: outside",
    ],
    "trusted": ["CrossHair 0.0.110 / z3 5.1", "pyOpenSSL / OpenSSL record layer", "asyncio sslproto"],
}

FN = ["GeminiServerProtocol._send_response", "TLSTransportWrapper.write", "TLSTransportWrapper.close",
      "TLSServerProtocol._flush_outgoing", "TLSServerProtocol.data_received", "_do_handshake",
      "_initialize_inner_protocol", "_process_application_data"]
OBLIGATIONS = [
    Ob("plain", plain, quick=120, thorough=300,
       symbolic="bytes body of n bytes, or text body of n characters of which x are 2-byte characters (n, x symbolic, n <= 104857600)",
       functions=["GeminiServerProtocol._send_response", "data_received", "_route_request"],
       stubs=["FakeTransport", "SymBuf/FillStr"]),
    Ob("tls_pump", tls_pump, quick=300, thorough=1800, real_replay=tls_pump_real,
       symbolic="bytes body of n bytes or text body of n characters with x 2-byte characters, n in 0..%d" % PUMP_MAX,
       functions=FN, stubs=["StubTLSConn", "FakeTransport", "SymBuf/FillStr", "MiniLoop"],
       outside=["body lengths above %d on the PyOpenSSL pump" % PUMP_MAX]),
    Ob("tls_backpressure", tls_backpressure, quick=300, thorough=900,
       symbolic="body length 0..300 000 (quick) / 0..2 MiB, bytes or text with x two-byte characters, high-water mark (0 / 64 KiB / 1 MiB), "
                "moments at which the slow reader catches up (incl. only after close)",
       functions=FN, stubs=["StubTLSConn", "FakeTransport with pause_writing/resume_writing (asyncio flow-control contract)", "MiniLoop"]),
    Ob("tls_pump_large", tls_pump_large, quick=600, thorough=2400,
       symbolic="body of 13 MiB+1 or 24 MiB+5 bytes (quick), additionally 64 MiB and max_file_size = 100 MiB (thorough), bytes or text with 7 two-byte characters; by symbolic index", note="discrete: concrete sizes",
       functions=FN, stubs=["StubTLSConn", "FakeTransport", "SymBuf", "MiniLoop"],
       outside=["other sizes above the tls_pump bound"]),
    Ob("both", both, quick=200, thorough=600,
       symbolic="n in 0..40000, x in 0..n: plaintext reconstructed from the pump == bytes written on the plain path",
       functions=FN, stubs=["StubTLSConn", "FakeTransport", "SymBuf/FillStr"]),
]
