"""C06 - responses arrive complete and unaltered, for any size, on both TLS backends"""
import nauyaca.protocol.request  # noqa: F401
from nauyaca.protocol.response import GeminiResponse

from vf import Ob, V, pick
from vf.server import make, wire_response
from vf.symbuf import Fill, FillStr, SymBuf, mk
from vf.tlsserver import feed, make_tls

MAXFILE = 100 * 1024 * 1024
PUMP_MAX = pick(300_000, 2 * 1024 * 1024)
HEADER = b"20 text/gemini\r\n"


def _resp(n, kind):
    """kind 0: bytes body of n filler bytes; 1: str body of n ASCII characters;
    2: str body 'é' (2 bytes in UTF-8) followed by n ASCII characters"""
    if kind == 0:
        return GeminiResponse(20, "text/gemini", mk(Fill(n))), mk(Fill(n))
    if kind == 1:
        return GeminiResponse(20, "text/gemini", FillStr("aaa", mk(Fill(n)))), mk(Fill(n))
    buf = mk("é".encode("utf-8"), Fill(n))
    return GeminiResponse(20, "text/gemini", FillStr("éaaa", buf)), buf


def plain(n: int, kind: int) -> bool:
    """
    pre: 0 <= n <= MAXFILE
    pre: 0 <= kind <= 2
    post: _
    """
    resp, want = _resp(n, kind)
    p, t, loop = make(lambda r: resp)
    p.data_received(b"gemini://h/\r\n")
    loop.run_ready()
    data, closes, late = wire_response(t)
    return V(closes >= 1 and late == 0 and data.same_as(mk(HEADER) + want))


def tls_pump(n: int, kind: int) -> bool:
    """
    pre: 0 <= n <= PUMP_MAX
    pre: 0 <= kind <= 2
    post: _
    """
    resp, want = _resp(n, kind)
    outer, tcp, loop, conn, made = make_tls(lambda r: resp)
    feed(outer, tcp, [("hs",)])
    feed(outer, tcp, [("app", b"gemini://h/\r\n")])
    loop.run_ready()
    plain_, close_seen, after, all_out = conn.delivered(tcp)
    return V(tcp.closed >= 1 and after == 0 and close_seen and plain_.same_as(mk(HEADER) + want))


def tls_pump_real(n, kind):
    """L2: same scenario over two real PyOpenSSL memory-BIO connections."""
    from vf.real_tls import run_tls_exchange
    body = [b"a" * n, "a" * n, "é" + "a" * n][kind]
    want = HEADER + (body if isinstance(body, bytes) else body.encode("utf-8"))
    got, closed, eof = run_tls_exchange(lambda r: GeminiResponse(20, "text/gemini", body), b"gemini://h/\r\n")
    return got == want and closed


def both(n: int, kind: int) -> bool:
    """
    pre: 0 <= n <= 40000
    pre: 0 <= kind <= 2
    post: _
    """
    resp, want = _resp(n, kind)
    p, t, loop = make(lambda r: resp)
    p.data_received(b"gemini://h/\r\n")
    loop.run_ready()
    d1, c1, l1 = wire_response(t)
    resp2, _ = _resp(n, kind)
    outer, tcp, loop2, conn, made = make_tls(lambda r: resp2)
    feed(outer, tcp, [("hs",)])
    feed(outer, tcp, [("app", b"gemini://h/\r\n")])
    loop2.run_ready()
    d2, close_seen, after, all_out = conn.delivered(tcp)
    return V(d1.same_as(d2) and c1 >= 1 and tcp.closed >= 1 and close_seen and after == 0 and l1 == 0)


META = {
    "files": ["src/nauyaca/server/protocol.py", "src/nauyaca/server/tls_protocol.py"],
    "level": "model_checking",
    "explanation": ("Bounded symbolic execution of the real _send_response and of the real TLSTransportWrapper.write/close + "
                    "TLSServerProtocol._flush_outgoing pump against a contract stub of OpenSSL.SSL.Connection. The body "
                    "length is a solver integer: every length 0..100 MiB on the plain path, every length 0..300 000 "
                    "(quick) / 0..2 MiB (thorough) through the pump, including every TLS-record and 8192-byte boundary."),
    "assumptions": [
        "StubTLSConn: send(d) accepts exactly min(len d, 16384) bytes (measured pyOpenSSL behaviour over a memory BIO), "
        "sendall accepts everything, bio_read(n) returns min(n, pending) bytes, shutdown queues close_notify",
        "asyncio's SSL transport (stdlib backend) delivers what write() accepted; OpenSSL encrypts what send() accepted",
        "pump sizes above the stated bound up to max_file_size are outside the claim (one solver fork per 8192 bytes)",
        "client reader speed only affects kernel buffers below the transport contract: outside",
    ],
    "trusted": ["CrossHair 0.0.110 / z3 5.1", "pyOpenSSL / OpenSSL record layer", "asyncio sslproto"],
}

FN = ["GeminiServerProtocol._send_response", "TLSTransportWrapper.write", "TLSTransportWrapper.close",
      "TLSServerProtocol._flush_outgoing", "TLSServerProtocol.data_received", "_do_handshake",
      "_initialize_inner_protocol", "_process_application_data"]
OBLIGATIONS = [
    Ob("plain", plain, quick=120, thorough=300,
       symbolic="body length n in 0..104857600; bytes / str / str with a 2-byte character",
       functions=["GeminiServerProtocol._send_response", "data_received", "_route_request"],
       stubs=["FakeTransport", "SymBuf/FillStr"]),
    Ob("tls_pump", tls_pump, quick=300, thorough=1800, real_replay=tls_pump_real,
       symbolic="body length n in 0..%d; bytes / str / str with a 2-byte character" % PUMP_MAX,
       functions=FN, stubs=["StubTLSConn", "FakeTransport", "SymBuf/FillStr", "MiniLoop"],
       outside=["body lengths above %d on the PyOpenSSL pump" % PUMP_MAX]),
    Ob("both", both, quick=200, thorough=600,
       symbolic="body length n in 0..40000: plaintext reconstructed from the pump == bytes written on the plain path",
       functions=FN, stubs=["StubTLSConn", "FakeTransport", "SymBuf/FillStr"]),
]
