"""C07 - outcome independent of read segmentation; handlers run at most once"""
import nauyaca.protocol.request  # noqa: F401
from nauyaca.protocol.response import GeminiResponse

from vf import Ob, V, pick
from vf.server import make, wire_response
from vf.symbuf import Fill, SymBuf, deliver, mk

NMAX = 1200
SIZES = [0, 1, 7, 1024, 70000]
SIZE_TXT = [b"0", b"1", b"7", b"1024", b"70000"]


class _Rec:
    """Handler / upload-handler spy.  mode: 0 sync, 1 async (task runs when the harness lets it)."""

    def __init__(self, mode):
        self.mode = mode
        self.calls = []
        self.uploads = []

    def __call__(self, request):
        self.calls.append((request.raw_url.encode("utf-8"), request.path, request.query))
        resp = GeminiResponse(status=20, meta="text/gemini", body="ok")
        if self.mode == 0:
            return resp

        async def later():
            return resp
        return later()

    async def handle_upload(self, request):
        self.uploads.append((request.size, request.content, request.path, request.token))
        return GeminiResponse(status=20, meta="text/gemini", body="stored")


def _run(stream, cuts, late, mode, uploads):
    """Deliver ``stream`` cut at ``cuts``, then each buffer in ``late`` as its own read while
    any handler task is still pending, then let tasks finish, then (if the connection is
    still open) nothing more.  Returns (transport, recorder)."""
    rec = _Rec(mode)
    p, t, loop = make(rec, None, rec if uploads else None)
    deliver(p, stream, cuts, t)
    for piece in late:
        if t.closed:
            break
        p.data_received(piece)
    loop.run_ready()
    return t, rec


def _same_outcome(ta, ra, tb, rb):
    da, ca, la = wire_response(ta)
    db, cb, lb = wire_response(tb)
    if la or lb:
        return False
    if (ca > 0) != (cb > 0):
        return False
    if not da.same_as(db):
        return False
    if len(ra.calls) != len(rb.calls) or len(ra.uploads) != len(rb.uploads):
        return False
    for x, y in zip(ra.calls, rb.calls):
        if x[1] != y[1] or x[2] != y[2]:
            return False
    for x, y in zip(ra.uploads, rb.uploads):
        if x[0] != y[0] or x[2] != y[2] or x[3] != y[3]:
            return False
        cx = x[1] if type(x[1]) is SymBuf else SymBuf([x[1]])
        if not cx.same_as(y[1]):
            return False
    return True


def _gemini_seg(n, m, c1, c2, late, mode, trailer=b""):
    # (contract lives on the partitioned wrappers below)
    stream = mk(b"gemini://h/", Fill(n), b"?q=1\r\n", trailer, Fill(m))
    total = len(stream)
    if c2 > total:
        c2 = total
    if c1 > c2:
        c1 = c2
    lates = [mk(b"Z")] * late
    whole = stream
    for piece in lates:
        whole = whole + piece
    ta, ra = _run(whole, [], [], mode, False)
    tb, rb = _run(stream, [c1, c2], lates, mode, False)
    if len(rb.calls) > 1 or len(ra.calls) > 1:
        return V(False)
    return V(_same_outcome(ta, ra, tb, rb))


def _titan_seg(sk, clen, c1, c2, late):
    # (contract lives on the partitioned wrappers below)
    size = SIZES[sk]
    stream = mk(b"titan://h/f;size=", SIZE_TXT[sk], b"\r\n", Fill(clen))
    total = len(stream)
    if c2 > total:
        c2 = total
    if c1 > c2:
        c1 = c2
    lates = [mk(Fill(1))] * late
    whole = stream
    for piece in lates:
        whole = whole + piece
    ta, ra = _run(whole, [], [], 0, True)
    tb, rb = _run(stream, [c1, c2], lates, 0, True)
    if len(rb.uploads) > 1 or len(ra.uploads) > 1 or rb.calls or ra.calls:
        return V(False)
    if not _same_outcome(ta, ra, tb, rb):
        return V(False)
    # absolute part: dispatched iff enough content arrived, with exactly the declared bytes
    have = clen + late
    if have >= size:
        if len(rb.uploads) != 1:
            return V(False)
        got = rb.uploads[0]
        content = got[1] if type(got[1]) is SymBuf else SymBuf([got[1]])
        return V(got[0] == size and len(content) == size and content.same_as(mk(Fill(size))))
    return V(len(rb.uploads) == 0 and tb.closed == 0)


def titan_late_after(sk: int, extra: int) -> bool:
    """
    pre: 1 <= sk < len(SIZES)
    pre: 0 <= extra <= 3
    post: _
    """
    # content complete, handler task still pending, more reads arrive, then the task runs,
    # then (connection closed) nothing else: one invocation, one response
    size = SIZES[sk]
    rec = _Rec(0)
    p, t, loop = make(rec, None, rec)
    p.data_received(mk(b"titan://h/f;size=", SIZE_TXT[sk], b"\r\n", Fill(size)))
    for _ in range(extra):
        if not t.closed:
            p.data_received(mk(b"TRAILING"))
    loop.run_ready()
    data, closes, late = wire_response(t)
    return V(len(rec.uploads) == 1 and late == 0 and closes >= 1 and len(t.writes()) <= 2)


# ---- the obligations proper: the argument space is partitioned over several processes ----
def gemini_cut2_a(n: int, m: int, c1: int, c2: int) -> bool:
    """
    pre: 0 <= n <= NMAX and 0 <= m <= 50
    pre: 0 <= c1 <= c2 <= n + m + 20
    pre: c1 <= 6
    post: _
    """
    return _gemini_seg(n, m, c1, c2, 0, 0)


def gemini_cut2_b(n: int, m: int, c1: int, c2: int) -> bool:
    """
    pre: 0 <= n <= NMAX and 0 <= m <= 50
    pre: 0 <= c1 <= c2 <= n + m + 20
    pre: 6 < c1 <= 11 + n
    post: _
    """
    return _gemini_seg(n, m, c1, c2, 0, 0)


def gemini_cut2_c(n: int, m: int, c1: int, c2: int) -> bool:
    """
    pre: 0 <= n <= NMAX and 0 <= m <= 50
    pre: 0 <= c1 <= c2 <= n + m + 20
    pre: 11 + n < c1
    post: _
    """
    return _gemini_seg(n, m, c1, c2, 0, 0)


def gemini_trailing_request(n: int, c: int, late: int) -> bool:
    """
    pre: 0 <= n <= NMAX
    pre: 0 <= c <= n + 40
    pre: 0 <= late <= 1
    post: _
    """
    # what follows the request line is itself a complete, valid request line (pipelining attempt / smuggling): it must
    # never be served, whether the first line was accepted or refused as over-long, wherever the stream is cut
    stream = mk(b"gemini://h/", Fill(n), b"?q=1\r\n", b"gemini://h/second\r\n")
    if c > len(stream):
        c = len(stream)
    tb, rb = _run(stream, [c], [mk(b"gemini://h/third\r\n")] * late, 0, False)
    for call in rb.calls:
        if call[1] == "/second" or call[1] == "/third":
            return V(False)
    data, closes, lates = wire_response(tb)
    if len(rb.calls) > 1 or lates or closes < 1:
        return V(False)
    too_long = 11 + n + 4 + 2 > 1024
    head = data.segs[0] if data.segs else b""
    if too_long:
        return V(len(rb.calls) == 0 and head[:2] == b"59")
    return V(len(rb.calls) == 1 and head[:2] == b"20")


def gemini_late_sync(n: int, m: int, c: int, late: int) -> bool:
    """
    pre: 0 <= n <= NMAX and 0 <= m <= 50
    pre: 0 <= c <= n + m + 20
    pre: 0 <= late <= 2
    post: _
    """
    return _gemini_seg(n, m, 0, c, late, 0)


def gemini_late_async(n: int, m: int, c: int, late: int) -> bool:
    """
    pre: 0 <= n <= NMAX and 0 <= m <= 50
    pre: 0 <= c <= n + m + 20
    pre: 0 <= late <= 2
    post: _
    """
    return _gemini_seg(n, m, 0, c, late, 1)


def titan_small_a(sk: int, clen: int, c1: int, c2: int) -> bool:
    """
    pre: 0 <= sk <= 2 and 0 <= clen <= 40
    pre: 0 <= c1 <= c2 <= clen + 30
    pre: c1 <= 4
    post: _
    """
    return _titan_seg(sk, clen, c1, c2, 0)


def titan_small_a2(sk: int, clen: int, c1: int, c2: int) -> bool:
    """
    pre: 0 <= sk <= 2 and 0 <= clen <= 40
    pre: 0 <= c1 <= c2 <= clen + 30
    pre: 5 <= c1 <= 10
    post: _
    """
    return _titan_seg(sk, clen, c1, c2, 0)


def titan_small_b(sk: int, clen: int, c1: int, c2: int) -> bool:
    """
    pre: 0 <= sk <= 2 and 0 <= clen <= 40
    pre: 0 <= c1 <= c2 <= clen + 30
    pre: c1 > 10
    post: _
    """
    return _titan_seg(sk, clen, c1, c2, 0)


def titan_small_late(sk: int, clen: int, c: int, late: int) -> bool:
    """
    pre: 0 <= sk <= 2 and 0 <= clen <= 40
    pre: 0 <= c <= clen + 30
    pre: 1 <= late <= 2
    post: _
    """
    return _titan_seg(sk, clen, 0, c, late)


def titan_1k_cut2(clen: int, c1: int, c2: int) -> bool:
    """
    pre: 0 <= clen <= 80000
    pre: 23 <= c1 <= c2 <= clen + 30
    post: _
    """
    return _titan_seg(3, clen, c1, c2, 0)


def titan_1k_late(clen: int, c: int, late: int) -> bool:
    """
    pre: 0 <= clen <= 80000
    pre: 0 <= c <= clen + 30
    pre: 0 <= late <= 2
    post: _
    """
    return _titan_seg(3, clen, 0, c, late)


def titan_70k_cut2(clen: int, c1: int, c2: int) -> bool:
    """
    pre: 0 <= clen <= 80000
    pre: 24 <= c1 <= c2 <= clen + 30
    post: _
    """
    return _titan_seg(4, clen, c1, c2, 0)


def titan_70k_late(clen: int, c: int, late: int) -> bool:
    """
    pre: 0 <= clen <= 80000
    pre: 0 <= c <= clen + 30
    pre: 0 <= late <= 2
    post: _
    """
    return _titan_seg(4, clen, 0, c, late)


# ---- PyOpenSSL pump: TLS records coalesced with the handshake / split / several per read ---------
def _tls_run(mode, stream, cut, late, titan):
    from vf.tls import StubTLSConn
    from vf.tlsserver import feed, make_tls
    rec = _Rec(0)
    conn = StubTLSConn(flights=1)
    outer, tcp, loop, conn, made = make_tls(rec, None, rec if titan else None, conn)
    a, b = stream.cut(cut)

    def recs(*pieces):
        # a TLS application-data record handed up by recv() is never empty
        return [("app", x) for x in pieces if x]
    if mode == 0:
        feed(outer, tcp, [("hs",)])
        feed(outer, tcp, recs(stream))
    elif mode == 1:
        feed(outer, tcp, [("hs",)] + recs(stream))                 # rides with the final handshake flight
    elif mode == 2:
        feed(outer, tcp, [("hs",)])
        feed(outer, tcp, recs(a, b))                               # two records in one TCP read
    elif mode == 3:
        feed(outer, tcp, [("hs",)])
        feed(outer, tcp, recs(a))
        feed(outer, tcp, [])                                       # a read that completes no record
        feed(outer, tcp, recs(b))
    elif mode == 4:
        feed(outer, tcp, [("hs",)] + recs(a))
        feed(outer, tcp, recs(b))
    else:
        feed(outer, tcp, [("hs",)] + recs(a, b))                   # final flight + two records, one read, then silence
    for _ in range(late):
        feed(outer, tcp, [("app", mk(Fill(1))), ("app", mk(Fill(1)))])
    loop.run_ready()
    plain, close_seen, after, all_out = conn.delivered(tcp)
    return rec, plain, close_seen, after, tcp


def _tls_coalesce(mode, n, cut, late, titan, sk):
    # (contract on the partitioned wrappers)
    if titan:
        stream = mk(b"titan://h/f;size=", SIZE_TXT[1 + sk], b"\r\n", Fill(SIZES[1 + sk]), Fill(n))
    else:
        stream = mk(b"gemini://h/", Fill(n), b"\r\n")
    if titan:
        cut = cut + 20                  # record boundary inside the content (boundaries inside the line: gemini variant)
    if cut > len(stream):
        cut = len(stream)
    r0, p0, c0, a0, t0 = _tls_run(0, stream, 0, 0, titan)
    r1, p1, c1, a1, t1 = _tls_run(mode, stream, cut, late, titan)
    if len(r1.calls) + len(r1.uploads) > 1 or a1 != 0 or a0 != 0:
        return V(False)
    if len(r1.calls) != len(r0.calls) or len(r1.uploads) != len(r0.uploads):
        return V(False)
    return V(p1.same_as(p0) and c1 == c0 and (t1.closed > 0) == (t0.closed > 0))


def tls_trailing_request(mode: int, n: int, late: int) -> bool:
    """
    pre: 0 <= mode <= 2 and 0 <= n <= NMAX and 0 <= late <= 1
    post: _
    """
    # several TLS records decrypted from ONE tcp read: the request line (accepted or over-long) and then a record that
    # is itself a complete request line; the pump keeps handing records up within the same read, so "asyncio stops
    # reading a closed transport" does not protect the inner protocol here
    from vf.tls import StubTLSConn
    from vf.tlsserver import feed, make_tls
    rec = _Rec(0)
    conn = StubTLSConn(flights=1)
    outer, tcp, loop, conn, made = make_tls(rec, None, None, conn)
    first = ("app", mk(b"gemini://h/", Fill(n), b"?q=1\r\n"))
    second = ("app", mk(b"gemini://h/second\r\n"))
    if mode == 0:
        feed(outer, tcp, [("hs",)])
        feed(outer, tcp, [first, second])
    elif mode == 1:
        feed(outer, tcp, [("hs",), first, second])
    else:
        feed(outer, tcp, [("hs",)])
        feed(outer, tcp, [first, second, ("app", mk(b"gemini://h/third\r\n"))])
    for _ in range(late):
        feed(outer, tcp, [("app", mk(b"gemini://h/third\r\n"))])
    loop.run_ready()
    for call in rec.calls:
        if call[1] == "/second" or call[1] == "/third":
            return V(False)
    too_long = 11 + n + 4 + 2 > 1024
    return V(len(rec.calls) == (0 if too_long else 1))


def tls_coalesce_gemini(mode: int, n: int, cut: int, late: int) -> bool:
    """
    pre: 1 <= mode <= 5 and 0 <= n <= 1100 and 0 <= cut <= n + 14 and 0 <= late <= 1
    post: _
    """
    return _tls_coalesce(mode, n, cut, late, False, 0)


def tls_coalesce_titan(mode: int, n: int, cut: int, late: int, sk: int) -> bool:
    """
    pre: 1 <= mode <= 5 and 0 <= n <= 1100 and 0 <= cut <= n + 1100 and 0 <= late <= 1
    pre: 0 <= sk <= 1
    post: _
    """
    return _tls_coalesce(mode, n, cut, late, True, sk)


META = {
    "files": ["src/nauyaca/server/protocol.py", "src/nauyaca/server/tls_protocol.py", "src/nauyaca/protocol/request.py",
              "src/nauyaca/utils/url.py"],
    "level": "model_checking",
    "explanation": ("Relational bounded symbolic execution of the real GeminiServerProtocol: the same byte stream is "
                    "delivered once in a single read and once cut at two symbolic offsets followed by 0..2 late reads; "
                    "transport log, handler arguments and invocation counts must agree. Lengths (line filler, trailing "
                    "garbage, Titan content up to 80000 bytes) are solver integers."),
    "assumptions": [
        "asyncio stops delivering data once the transport has been closed (FakeTransport contract)",
        "tasks created by the protocol run only when the harness lets them (MiniLoop): late reads arrive while they are pending",
        "SymBuf uniformity assumption",
    ],
    "trusted": ["CrossHair 0.0.110 / z3 5.1"],
}

OBLIGATIONS = [
    Ob("gemini_cut2_a", gemini_cut2_a, quick=400, thorough=1200,
       symbolic="line filler n in 0..1200, trailing garbage m in 0..50, two cut offsets (first cut inside 'gemini:'), sync handler",
       functions=["GeminiServerProtocol.data_received", "_handle_gemini_request", "_route_request", "_handle_async_handler_result", "_send_response"], stubs=["FakeTransport", "MiniLoop", "SymBuf", "NoLog", "FixedClock"], outside=["more than two cuts"]),
    Ob("gemini_cut2_b", gemini_cut2_b, quick=400, thorough=1200,
       symbolic="line filler n in 0..1200, trailing garbage m in 0..50, two cut offsets (first cut inside '//h/' or the line filler), sync handler",
       functions=["GeminiServerProtocol.data_received", "_handle_gemini_request", "_route_request", "_handle_async_handler_result", "_send_response"], stubs=["FakeTransport", "MiniLoop", "SymBuf", "NoLog", "FixedClock"], outside=["more than two cuts"]),
    Ob("gemini_cut2_c", gemini_cut2_c, quick=400, thorough=1200,
       symbolic="line filler n in 0..1200, trailing garbage m in 0..50, two cut offsets (first cut in the query, CRLF or trailing garbage), sync handler",
       functions=["GeminiServerProtocol.data_received", "_handle_gemini_request", "_route_request", "_handle_async_handler_result", "_send_response"], stubs=["FakeTransport", "MiniLoop", "SymBuf", "NoLog", "FixedClock"], outside=["more than two cuts"]),
    Ob("gemini_trailing_request", gemini_trailing_request, quick=300, thorough=900,
       symbolic="line length 17..1217 (accepted and over-long), a complete second request line after the first, one cut offset "
                "anywhere, a third request line in a late read",
       functions=["GeminiServerProtocol.data_received", "_handle_gemini_request", "_route_request", "_send_response"],
       stubs=["FakeTransport", "MiniLoop", "SymBuf", "NoLog", "FixedClock"]),
    Ob("gemini_late_sync", gemini_late_sync, quick=400, thorough=1200,
       symbolic="line filler n in 0..1200, trailing garbage m in 0..50, one cut offset, 0..2 late reads; sync handler",
       functions=["GeminiServerProtocol.data_received", "_handle_gemini_request", "_route_request", "_handle_async_handler_result", "_send_response"], stubs=["FakeTransport", "MiniLoop", "SymBuf", "NoLog", "FixedClock"]),
    Ob("gemini_late_async", gemini_late_async, quick=400, thorough=1200,
       symbolic="line filler n in 0..1200, trailing garbage m in 0..50, one cut offset, 0..2 late reads; async handler whose task is pending while the late reads arrive",
       functions=["GeminiServerProtocol.data_received", "_handle_gemini_request", "_route_request", "_handle_async_handler_result", "_send_response"], stubs=["FakeTransport", "MiniLoop", "SymBuf", "NoLog", "FixedClock"]),
    Ob("titan_small_a", titan_small_a, quick=400, thorough=1200,
       symbolic="declared size in {0,1,7}, content length 0..40, two cuts with the first at offset 0..4",
       functions=["GeminiServerProtocol.data_received", "_handle_titan_url", "_process_titan_upload", "_handle_titan_upload_result", "TitanRequest.from_line"], stubs=["FakeTransport", "MiniLoop", "SymBuf", "NoLog", "FixedClock"]),
    Ob("titan_small_a2", titan_small_a2, quick=400, thorough=1200,
       symbolic="declared size in {0,1,7}, content length 0..40, two cuts with the first at offset 5..10",
       functions=["GeminiServerProtocol.data_received", "_handle_titan_url", "_process_titan_upload", "_handle_titan_upload_result", "TitanRequest.from_line"], stubs=["FakeTransport", "MiniLoop", "SymBuf", "NoLog", "FixedClock"]),
    Ob("titan_small_b", titan_small_b, quick=400, thorough=1200,
       symbolic="declared size in {0,1,7}, content length 0..40, two cuts with the first after byte 10",
       functions=["GeminiServerProtocol.data_received", "_handle_titan_url", "_process_titan_upload", "_handle_titan_upload_result", "TitanRequest.from_line"], stubs=["FakeTransport", "MiniLoop", "SymBuf", "NoLog", "FixedClock"]),
    Ob("titan_small_late", titan_small_late, quick=400, thorough=1200,
       symbolic="declared size in {0,1,7}, content length 0..40, one cut, 1..2 late reads of one byte",
       functions=["GeminiServerProtocol.data_received", "_handle_titan_url", "_process_titan_upload", "_handle_titan_upload_result", "TitanRequest.from_line"], stubs=["FakeTransport", "MiniLoop", "SymBuf", "NoLog", "FixedClock"]),
    Ob("titan_1k_cut2", titan_1k_cut2, quick=400, thorough=1200,
       symbolic="declared size 1024, content length 0..80000, two cuts inside the content",
       functions=["GeminiServerProtocol.data_received", "_handle_titan_url", "_process_titan_upload", "_handle_titan_upload_result", "TitanRequest.from_line"], stubs=["FakeTransport", "MiniLoop", "SymBuf", "NoLog", "FixedClock"]),
    Ob("titan_1k_late", titan_1k_late, quick=400, thorough=1200,
       symbolic="declared size 1024, content length 0..80000, one cut anywhere, 0..2 late reads",
       functions=["GeminiServerProtocol.data_received", "_handle_titan_url", "_process_titan_upload", "_handle_titan_upload_result", "TitanRequest.from_line"], stubs=["FakeTransport", "MiniLoop", "SymBuf", "NoLog", "FixedClock"]),
    Ob("titan_70k_cut2", titan_70k_cut2, quick=400, thorough=1200,
       symbolic="declared size 70000, content length 0..80000, two cuts inside the content",
       functions=["GeminiServerProtocol.data_received", "_handle_titan_url", "_process_titan_upload", "_handle_titan_upload_result", "TitanRequest.from_line"], stubs=["FakeTransport", "MiniLoop", "SymBuf", "NoLog", "FixedClock"]),
    Ob("titan_70k_late", titan_70k_late, quick=400, thorough=1200,
       symbolic="declared size 70000, content length 0..80000, one cut anywhere, 0..2 late reads",
       functions=["GeminiServerProtocol.data_received", "_handle_titan_url", "_process_titan_upload", "_handle_titan_upload_result", "TitanRequest.from_line"], stubs=["FakeTransport", "MiniLoop", "SymBuf", "NoLog", "FixedClock"]),
    Ob("tls_trailing_request", tls_trailing_request, quick=300, thorough=900,
       symbolic="request line of 17..1217 bytes (accepted and over-long) followed, within the same TCP read, by a TLS record holding a "
                "second complete request line (and a third), 3 delivery modes, a late read with another one",
       functions=["TLSServerProtocol.data_received", "_process_pending_after_handshake", "_process_application_data",
                  "TLSTransportWrapper", "GeminiServerProtocol.data_received"],
       stubs=["StubTLSConn", "FakeTransport", "MiniLoop", "SymBuf"], outside=["real TLS record parsing (OpenSSL)"]),
    Ob("tls_coalesce_gemini", tls_coalesce_gemini, quick=500, thorough=1500,
       symbolic="TLS record delivery mode (request coalesced with the final handshake flight / two records in one read / two reads with an "
                "empty read between / first half with the handshake), line filler or trailing bytes 0..1100, cut offset, 0..2 late reads of "
                "two records; gemini request; relational against the plain one-record delivery",
       functions=["TLSServerProtocol.data_received", "_do_handshake", "_initialize_inner_protocol", "_process_pending_after_handshake",
                  "_process_application_data", "_flush_outgoing", "TLSTransportWrapper", "GeminiServerProtocol.data_received"],
       stubs=["StubTLSConn", "FakeTransport", "MiniLoop", "SymBuf"], outside=["real TLS record parsing (OpenSSL)"]),
    Ob("tls_coalesce_titan", tls_coalesce_titan, quick=500, thorough=1500,
       symbolic="as tls_coalesce_gemini for a Titan upload (declared size 7 or 1024): record boundary inside the content, trailing bytes 0..1100",
       functions=["TLSServerProtocol.data_received", "_process_pending_after_handshake", "_process_application_data",
                  "GeminiServerProtocol.data_received", "_handle_titan_url"],
       stubs=["StubTLSConn", "FakeTransport", "MiniLoop", "SymBuf"]),
    Ob("titan_late_after", titan_late_after, quick=90, thorough=300,
       symbolic="size index 1..4, 0..3 further reads while the upload task is pending",
       functions=["GeminiServerProtocol.data_received", "_process_titan_upload", "_handle_titan_upload_result"]),
]
