"""C15 - silent peers are always disconnected within the timeout"""
import nauyaca.protocol.request  # noqa: F401
from nauyaca.protocol.response import GeminiResponse

from vf import Ob, V
from vf.server import make, wire_response
from vf.symbuf import Fill, deliver, mk
from vf.tls import StubTLSConn
from vf.tlsserver import feed, make_tls

REQ_TIMEOUT = 30.0
HS_BOUND = 60.0           # asyncio's own default handshake timeout; the most the property tolerates


def _starts40(data):
    segs = data.segs
    if not segs:
        return False
    h = segs[0]
    return len(h) >= 3 and h[0] == 0x34 and h[1] == 0x30 and h[2] == 0x20


class _Pending:
    """async request / upload handler and middleware whose tasks the harness controls"""

    def __init__(self):
        self.calls = 0

    def __call__(self, request):
        self.calls += 1

        async def later():
            return GeminiResponse(20, "text/gemini", "late")
        return later()

    async def handle_upload(self, request):
        self.calls += 1
        return GeminiResponse(20, "text/gemini", "stored")

    async def process_request(self, url, ip, fp=None):
        return True, None


def stall_line(n: int, k: int, titan: bool) -> bool:
    """
    pre: 0 <= n <= 1100
    pre: 0 <= k <= n + 30
    post: _
    """
    h = _Pending()
    p, t, loop = make(h, None, h)
    data = mk(b"titan://h/f" if titan else b"gemini://h/", Fill(n), b";size=5\r\n" if titan else b"\r\n")
    total = len(data)
    if k >= total:
        k = total - 1            # the peer stalls before the request line is complete
    first, _rest = data.cut(k)
    if first:
        p.data_received(first)
    if not t.closed:
        # connection open, no complete request: a live timer must exist within the bound
        armed = loop.armed_timers()
        if not armed or all(h_.when > REQ_TIMEOUT for h_ in armed):
            return V(False)
    loop.advance(REQ_TIMEOUT)
    out, closes, late = wire_response(t)
    if late or closes < 1:
        return V(False)
    # closed either by the timeout answer (40) or earlier by the size guard (59)
    return V(h.calls == 0 and len(out) > 0)


SIZES = [1, 7, 1024, 70000]
SIZE_TXT = [b"1", b"7", b"1024", b"70000"]


def stall_titan_body(sk: int, clen: int, c: int) -> bool:
    """
    pre: 0 <= sk < 4
    pre: 0 <= clen < SIZES[sk]
    pre: 0 <= c <= clen + 25
    post: _
    """
    h = _Pending()
    p, t, loop = make(h, None, h)
    data = mk(b"titan://h/f;size=", SIZE_TXT[sk], b"\r\n", Fill(clen))
    if c > len(data):
        c = len(data)
    deliver(p, data, [c], t)
    loop.run_ready()
    if t.closed or h.calls:
        return V(False)          # incomplete upload: nothing may have happened yet
    armed = loop.armed_timers()
    if not armed or all(h_.when > REQ_TIMEOUT for h_ in armed):
        return V(False)
    loop.advance(REQ_TIMEOUT)
    loop.run_ready()
    out, closes, late = wire_response(t)
    return V(closes >= 1 and late == 0 and _starts40(out) and h.calls == 0)


def no_fire_when_answering(kind: int, wait: int) -> bool:
    """
    pre: 0 <= kind <= 3
    pre: 31 <= wait <= 100000
    post: _
    """
    # kind 0: async handler pending; 1: middleware pending then async handler; 2: upload pending;
    # 3: delete (size 0) upload pending
    h = _Pending()
    p, t, loop = make(h, h if kind == 1 else None, h)
    if kind <= 1:
        p.data_received(b"gemini://h/x\r\n")
    elif kind == 2:
        p.data_received(mk(b"titan://h/f;size=3\r\nabc"))
    else:
        p.data_received(mk(b"titan://h/f;size=0\r\n"))
    # a complete request has been received and is being answered: time passes
    loop.advance(wait)
    out, closes, late = wire_response(t)
    if len(out) != 0 or closes:
        return V(False)          # a timeout fired although the request was complete
    loop.run_ready()
    out, closes, late = wire_response(t)
    return V(closes >= 1 and late == 0 and len(out) > 0 and not _starts40(out) and h.calls >= 1)


def tls_handshake_stall(flights: int, got: int, empties: int) -> bool:
    """
    pre: 1 <= flights <= 3
    pre: 0 <= got < flights
    pre: 0 <= empties <= 2
    post: _
    """
    h = _Pending()
    conn = StubTLSConn(flights=flights)
    outer, tcp, loop, conn, made = make_tls(h, None, h, conn)
    for _ in range(got):
        feed(outer, tcp, [("hs",)])
    for _ in range(empties):
        feed(outer, tcp, [])          # reads that complete no TLS record
    if tcp.closed or made:
        return V(False)               # handshake incomplete: nothing to close yet, no inner protocol
    loop.advance(HS_BOUND)
    return V(tcp.closed >= 1 and not made and h.calls == 0)


def tls_request_stall(n: int, k: int) -> bool:
    """
    pre: 0 <= n <= 1100
    pre: 0 <= k <= n + 12
    post: _
    """
    h = _Pending()
    outer, tcp, loop, conn, made = make_tls(h, None, h)
    feed(outer, tcp, [("hs",)])
    data = mk(b"gemini://h/", Fill(n), b"\r\n")
    if k >= len(data):
        k = len(data) - 1
    first, _ = data.cut(k)
    if first:
        feed(outer, tcp, [("app", first)])
    loop.advance(REQ_TIMEOUT)
    plain, close_seen, after, all_out = conn.delivered(tcp)
    return V(tcp.closed >= 1 and after == 0 and len(plain) > 0 and h.calls == 0)


META = {
    "files": ["src/nauyaca/server/protocol.py", "src/nauyaca/server/tls_protocol.py"],
    "level": "model_checking",
    "explanation": ("Bounded symbolic execution of the real protocol classes on a virtual-time loop: the stall offset into the "
                    "request line / Titan body, the elapsed time and the number of completed handshake flights are solver "
                    "variables; an armed timer must exist whenever the connection is open without a complete request, its "
                    "firing must close the connection (with 40 once a TLS session exists), and no timer may fire once a "
                    "complete request is being answered."),
    "assumptions": [
        "MiniLoop virtual clock: a timer fires exactly when the harness advances time to its deadline and it was not cancelled",
        "StubTLSConn handshake contract: WantReadError until the configured number of inbound flights arrived",
        "stdlib backend: asyncio's own ssl_handshake_timeout (60 s) is trusted; wall-clock accuracy is outside",
    ],
    "trusted": ["CrossHair 0.0.110 / z3 5.1", "asyncio call_later semantics"],
}

FP = ["GeminiServerProtocol.connection_made", "data_received", "_handle_timeout", "_handle_titan_url",
      "_process_titan_upload", "_handle_gemini_request", "connection_lost"]
FT = ["TLSServerProtocol.connection_made", "data_received", "_do_handshake", "_initialize_inner_protocol",
      "_flush_outgoing", "_close_with_error", "TLSTransportWrapper.write", "close", "is_closing"]
OBLIGATIONS = [
    Ob("stall_line", stall_line, quick=200, thorough=900,
       symbolic="line filler 0..1100, stall offset anywhere before the end of the request line, gemini/titan",
       functions=FP, stubs=["FakeTransport", "MiniLoop(virtual clock)", "SymBuf"]),
    Ob("stall_titan_body", stall_titan_body, quick=200, thorough=900,
       symbolic="declared size in {1,7,1024,70000}, delivered content length < size, one cut offset",
       functions=FP, stubs=["FakeTransport", "MiniLoop(virtual clock)", "SymBuf"]),
    Ob("no_fire_when_answering", no_fire_when_answering, quick=120, thorough=600,
       symbolic="which answer is pending (handler / middleware / upload / delete), elapsed time 31..100000 s (integer seconds)",
       functions=FP, stubs=["FakeTransport", "MiniLoop(virtual clock)"]),
    Ob("tls_handshake_stall", tls_handshake_stall, quick=120, thorough=600,
       symbolic="handshake needs 1..3 inbound flights, peer delivered fewer, then 0..2 reads completing no record",
       functions=FT, stubs=["StubTLSConn", "FakeTransport", "MiniLoop(virtual clock)"]),
    Ob("tls_request_stall", tls_request_stall, quick=200, thorough=900,
       symbolic="line filler 0..1100, stall offset before the end of the request line, after a completed handshake",
       functions=FT + FP, stubs=["StubTLSConn", "FakeTransport", "MiniLoop(virtual clock)", "SymBuf"]),
]
