"""C16 - redirect following is bounded, loop-free and stays on gemini://"""
from typing import List

import nauyaca.protocol.request  # noqa: F401  (import order: breaks the url<->request cycle)
import nauyaca.client.session as cs
from nauyaca.client.session import GeminiClient
from nauyaca.protocol.response import GeminiResponse
from nauyaca.utils.url import parse_url

from vf import Ob, V, pick
from vf.stubs import drive

N = pick(4, 5)
MAXR = 6
HOSTS = ["a", "a", "b", "c", "b"]
URLS = ["gemini://%s/%d" % (HOSTS[i], i) for i in range(N)]
# special (non-followable or odd) redirect targets, selected by kind N .. N+6
SPECIAL = [
    "/relative/target",            # relative reference
    "http://a/0",                  # other scheme
    "titan://a/0;size=0",          # other scheme
    "",                            # empty meta
    "gemini://a/" + "x" * 1100,    # longer than a request line may be
    "gemini://a/0#frag",           # fragment (library refuses such URLs)
    "gemini://user@a/0",           # user-info (library refuses such URLs)
]
NK = N + len(SPECIAL)


def _client(maxr):
    c = GeminiClient.__new__(GeminiClient)
    c.max_redirects = maxr
    c.timeout = 1.0
    c.tofu_db = None
    c.trust_on_first_use = False
    c.verify_ssl = False
    c.ssl_context = None
    return c


def graph(nxt: List[int], maxr: int, follow: bool) -> bool:
    """
    pre: len(nxt) == N
    pre: all(-1 <= x < NK for x in nxt)
    pre: 0 <= maxr <= MAXR
    post: _
    """
    c = _client(maxr)
    conns = []
    requested = []

    async def single(url):
        # what the real _get_single does before it connects: parse (may raise ValueError)
        requested.append(url)
        parse_url(url)
        i = URLS.index(url) if url in URLS else -1
        conns.append(i)
        if i < 0:
            # a URL outside the graph was actually requested (e.g. the oversized one):
            # the scripted server answers 59
            return GeminiResponse(59, "bad request", None, url)
        k = nxt[i]
        if k < 0:
            return GeminiResponse(20, "text/gemini", "body%d" % i, url)
        if k < N:
            return GeminiResponse(30 + (i % 2), URLS[k], None, url)
        return GeminiResponse(30, SPECIAL[k - N], None, url)

    c._get_single = single
    # ---- reference walk (the property, written independently) --------------------------
    expect = None            # ("final", i) | ("error",) | ("either", i)
    seen = []
    i = 0
    hops = 0
    while expect is None:
        if i in seen:
            expect = ("error",)
            break
        seen.append(i)
        k = nxt[i]
        if k < 0:
            expect = ("final", i)
        elif k < N:
            hops += 1
            if hops > maxr:
                expect = ("error",)
            else:
                i = k
        else:
            # not a followable gemini:// redirect: may be handed back unchanged or refused,
            # but must not be followed to a non-gemini URL
            expect = ("either", i)
    # ---- the real code --------------------------------------------------------------------
    got, exc = drive(c.get(URLS[0], follow_redirects=follow))
    ok = True
    if any(not u.startswith("gemini://") for u in requested):
        ok = False
    if not follow:
        k0 = nxt[0]
        if conns != [0] or exc is not None:
            ok = False
        elif k0 < 0:
            ok = got.status == 20 and got.body == "body0"
        elif k0 < N:
            ok = got.status in (30, 31) and got.meta == URLS[k0] and got.body is None
        else:
            ok = got.status == 30 and got.meta == SPECIAL[k0 - N]
        return V(ok)
    if len(conns) > maxr + 1:
        ok = False
    if expect[0] == "final":
        j = expect[1]
        if exc is not None or got is None or got.status != 20 or got.body != "body%d" % j:
            ok = False
        if conns != seen:
            ok = False
    elif expect[0] == "error":
        if exc is None:
            ok = False
    else:
        j = expect[1]
        if exc is None:
            # handed back: must be node j's own redirect, or (oversized target only) the
            # refusal the server gave for it -- never a success body
            if got.status == 20:
                ok = False
            if got.status in (30, 31) and got.meta != SPECIAL[nxt[j] - N]:
                ok = False
    return V(ok)


META = {
    "files": ["src/nauyaca/client/session.py", "src/nauyaca/utils/url.py", "src/nauyaca/protocol/response.py",
              "src/nauyaca/protocol/status.py"],
    "level": "model_checking",
    "explanation": ("Bounded symbolic execution (CrossHair/z3) of the real GeminiClient.get/_get_with_redirects over a "
                    "symbolic redirect graph; every graph over N URLs x every max_redirects in 0..6 x follow flag is "
                    "covered by the solver, compared with an independent reference walk."),
    "assumptions": [
        "_get_single is replaced by a function of the symbolic graph that performs the same pre-connection URL "
        "parse as the real one; per-hop pin checking is decided by C03.redirect_hop on the real _get_single",
        "bounds: N=%d URLs on 3 hosts, max_redirects 0..%d, %d special target forms" % (N, MAXR, len(SPECIAL)),
    ],
    "trusted": ["CrossHair 0.0.110 path exploration is exhaustive when it reports CONFIRMED", "z3 5.1"],
}

OBLIGATIONS = [
    Ob("graph", graph, quick=120, thorough=900,
       symbolic="nxt[i] in -1..%d for each of %d nodes (final / 3x->node j / 7 special target forms), "
                "max_redirects 0..%d, follow flag" % (NK - 1, N, MAXR),
       functions=["GeminiClient.get", "GeminiClient._get_with_redirects", "validate_url", "parse_url",
                  "GeminiResponse.redirect_url", "is_redirect"],
       stubs=["_get_single -> symbolic graph"],
       outside=["graphs over more than %d URLs" % N, "max_redirects > %d" % MAXR]),
]
