"""C16 - redirect following is bounded, loop-free and stays on gemini://"""
from typing import List

import nauyaca.protocol.request  # noqa: F401  (import order: breaks the url<->request cycle)
import nauyaca.client.session as cs
from nauyaca.client.session import GeminiClient
from nauyaca.protocol.response import GeminiResponse
from nauyaca.utils.url import parse_url

from vf import Ob, V, internal, pick
from vf.stubs import drive

N = pick(4, 5)
MAXR = 6
# node URLs are deliberately not all in canonical spelling (explicit default port, upper-case host,
# empty path): the client normalises what it puts on the wire, the redirect book-keeping must not
# be confused by that
ALL_URLS = ["gemini://a/0", "gemini://a:1965/1", "gemini://B/2", "gemini://c:7/3", "gemini://b"]
URLS = ALL_URLS[:N]
# special (non-followable or odd) redirect targets, selected by kind N .. N+6
SPECIAL = [
    "/relative/target",            # relative reference
    "http://a/0",                  # other scheme
    "titan://a/0;size=0",          # other scheme
    "",                            # empty meta
    "gemini://a/" + "x" * 1100,    # longer than a request line may be
    "gemini://a/0#frag",           # fragment (library refuses such URLs)
    "gemini://user@a/0",           # user-info (library refuses such URLs)
]
NK = N + len(SPECIAL)


class _TooMany(Exception):
    pass


def _client(maxr):
    return GeminiClient(timeout=1.0, max_redirects=maxr, verify_ssl=False, trust_on_first_use=False)


def graph(nxt: List[int], maxr: int, follow: bool) -> bool:
    """
    pre: len(nxt) == N
    pre: all(-1 <= x < NK for x in nxt)
    pre: 0 <= maxr <= MAXR
    post: _
    """
    c = _client(maxr)
    conns = []
    requested = []

    async def single(url):
        # what the real _get_single does before it connects: parse (may raise ValueError)
        if len(conns) > maxr + 3:
            raise _TooMany()               # runaway walk: stop it here, the oracle below reports it
        requested.append(url)
        parse_url(url)
        i = URLS.index(url) if url in URLS else -1
        conns.append(i)
        wire = parse_url(url).normalized       # what the real _get_single reports as response.url
        if i < 0:
            # a URL outside the graph was actually requested (e.g. the oversized one):
            # the scripted server answers 59
            return GeminiResponse(59, "bad request", None, wire)
        k = nxt[i]
        if k < 0:
            return GeminiResponse(20, "text/gemini", "body%d" % i, wire)
        if k < N:
            return GeminiResponse(30 + (i % 2), URLS[k], None, wire)
        return GeminiResponse(30, SPECIAL[k - N], None, wire)

    internal(c, "_get_single")            # the seam this obligation replaces
    c._get_single = single
    # ---- reference walk (the property, written independently) --------------------------
    expect = None            # ("final", i) | ("error",) | ("either", i)
    seen = []
    i = 0
    hops = 0
    while expect is None:
        if i in seen:
            expect = ("error",)
            break
        seen.append(i)
        k = nxt[i]
        if k < 0:
            expect = ("final", i)
        elif k < N:
            hops += 1
            if hops > maxr:
                expect = ("error",)
            else:
                i = k
        else:
            # not a followable gemini:// redirect: may be handed back unchanged or refused,
            # but must not be followed to a non-gemini URL
            expect = ("either", i)
    # ---- the real code --------------------------------------------------------------------
    got, exc = drive(c.get(URLS[0], follow_redirects=follow))
    ok = True
    if isinstance(exc, _TooMany):
        return V(False)
    if any(not u.startswith("gemini://") for u in requested):
        ok = False
    if not follow:
        k0 = nxt[0]
        if conns != [0] or exc is not None:
            ok = False
        elif k0 < 0:
            ok = got.status == 20 and got.body == "body0"
        elif k0 < N:
            ok = got.status in (30, 31) and got.meta == URLS[k0] and got.body is None
        else:
            ok = got.status == 30 and got.meta == SPECIAL[k0 - N]
        return V(ok)
    if len(conns) > maxr + 1:
        ok = False
    if expect[0] == "final":
        j = expect[1]
        if exc is not None or got is None or got.status != 20 or got.body != "body%d" % j:
            ok = False
        if conns != seen:
            ok = False
    elif expect[0] == "error":
        if exc is None:
            ok = False
    else:
        j = expect[1]
        if exc is None:
            # handed back: must be node j's own redirect, or (oversized target only) the
            # refusal the server gave for it -- never a success body
            if got.status == 20:
                ok = False
            if got.status in (30, 31) and got.meta != SPECIAL[nxt[j] - N]:
                ok = False
    return V(ok)


# ---- the same walk through the REAL _get_single (scripted connections, TOFU on) ---------------
RN = 3
_RURLS = ["gemini://a.example/0", "gemini://a.example:1965/1", "gemini://B.example/2"]


ALT2 = "gemini://a.example:7000/2"


def graph_real(n0: int, n1: int, n2: int, maxr: int, alt: int) -> bool:
    """
    pre: -1 <= n0 < RN and -1 <= n1 < RN and -1 <= n2 < RN
    pre: 0 <= maxr <= 3 and 0 <= alt <= 2
    post: _
    """
    # alt 0: node 2 lives on another host; alt 1: on another PORT of the first host (same certificate presented, no pin
    # yet); alt 2: ditto, and that port is pinned to a different certificate -- reaching it must fail
    from vf.clientrun import FPS, Env
    from nauyaca.security.tofu import CertificateChangedError
    nxt = [n0, n1, n2]
    env = Env(True)
    env.client.max_redirects = maxr
    hosts = [("a.example", 1965), ("a.example", 1965), ("b.example", 1965) if alt == 0 else ("a.example", 7000)]
    RURLS = [_RURLS[0], _RURLS[1], _RURLS[2] if alt == 0 else ALT2]
    if alt == 2:
        env.pin("a.example", 7000, 1)
    for i in range(RN):
        line = (parse_url(RURLS[i]).normalized + "\r\n").encode()
        if nxt[i] < 0:
            ans = ("20 text/gemini\r\nbody%d" % i).encode()
        else:
            ans = ("30 " + RURLS[nxt[i]] + "\r\n").encode()
        env.answer_for[(hosts[i][0], hosts[i][1], line)] = ans
    res, exc = env.run(env.client.get(RURLS[0]))
    # reference walk
    seen, i, hops, expect = [], 0, 0, None
    while expect is None:
        if i in seen:
            expect = "error"
            break
        seen.append(i)
        if nxt[i] < 0:
            expect = i
        else:
            hops += 1
            if hops > maxr:
                expect = "error"
            else:
                i = nxt[i]
    if len(env.conns) > maxr + 1:
        return V(False)
    # the pin is checked on every hop: every connection passed through verify/trust before any request byte
    for t in env.conns:
        if t.rx_before_verify != 0:
            return V(False)
    if alt == 2 and 2 in seen:
        # the walk arrives at the port pinned to another certificate: refused there, nothing fetched beyond it
        return V(isinstance(exc, CertificateChangedError) and res is None and len(env.conns) == seen.index(2) + 1
                 and env.pins().get(("a.example", 7000)) == FPS[1])
    if alt == 1 and 2 in seen and len(env.conns) > seen.index(2):
        # first contact with that port: its pin is recorded, whatever was verified for the other port before
        if env.pins().get(("a.example", 7000)) != FPS[0]:
            return V(False)
    if expect == "error":
        return V(exc is not None and res is None)
    return V(exc is None and res is not None and res.status == 20 and res.body == "body%d" % expect
             and len(env.conns) == len(seen))


META = {
    "files": ["src/nauyaca/client/session.py", "src/nauyaca/utils/url.py", "src/nauyaca/protocol/response.py",
              "src/nauyaca/protocol/status.py"],
    "level": "model_checking",
    "explanation": ("Bounded symbolic execution (CrossHair/z3) of the real GeminiClient.get/_get_with_redirects over a "
                    "symbolic redirect graph; every graph over N URLs x every max_redirects in 0..6 x follow flag is "
                    "covered by the solver, compared with an independent reference walk."),
    "assumptions": [
        "_get_single is replaced by a function of the symbolic graph that performs the same pre-connection URL "
        "parse as the real one; per-hop pin checking is decided by C03.redirect_hop on the real _get_single",
        "bounds: N=%d URLs on 3 hosts, max_redirects 0..%d, %d special target forms" % (N, MAXR, len(SPECIAL)),
    ],
    "trusted": ["CrossHair 0.0.110 path exploration is exhaustive when it reports CONFIRMED", "z3 5.1"],
}

OBLIGATIONS = [
    Ob("graph_real", graph_real, quick=600, thorough=1200,
       symbolic="redirect graph over 3 URLs in non-canonical spellings (explicit :1965, upper-case host | another port of the first host, "
                "unpinned or pinned to a different certificate), max_redirects 0..3; "
                "real _get_single, real client protocol, real TOFU store",
       functions=["GeminiClient.get", "_get_with_redirects", "_get_single", "GeminiClientProtocol", "TOFUDatabase.verify/trust"],
       stubs=["scripted peer connections", "ModelSQL", "MiniLoop"], outside=["more than 3 URLs on this path"]),
    Ob("graph", graph, quick=120, thorough=900,
       symbolic="nxt[i] in -1..%d for each of %d nodes (final / 3x->node j / 7 special target forms), "
                "max_redirects 0..%d, follow flag" % (NK - 1, N, MAXR),
       functions=["GeminiClient.get", "GeminiClient._get_with_redirects", "validate_url", "parse_url",
                  "GeminiResponse.redirect_url", "is_redirect"],
       stubs=["_get_single -> symbolic graph"],
       outside=["graphs over more than %d URLs" % N, "max_redirects > %d" % MAXR]),
]
