"""C12 - the trust store changes atomically and survives export/import"""
import io

import nauyaca.protocol.request  # noqa: F401
import nauyaca.security.tofu as tofu
from nauyaca.security.tofu import TOFUDatabase

import sqlite3 as _sqlite3
import tomllib as _tomllib

from vf import Ob, V, bind, pick, release
from vf.modelsql import DB, Crash, Ctl, FakeDatetime, FakeSqlite, install_clock

FP = ["sha256:" + "a" * 64, "sha256:" + "b" * 64]
H = ["a_b.example", "a-b.example"]        # look-alikes: "_" is a wildcard in SQL LIKE, "-" a literal
KEYS = [(H[0], 1965), (H[0], 7000), (H[1], 1965)]
NOW = "2026-01-01T00:00:00+00:00"
MAXK = 14


class _FakePath:
    def exists(self):
        return True

    def __fspath__(self):
        return "import.toml"


class _FakeToml:
    def __init__(self, data):
        self.data = data

    def load(self, f):
        return self.data


BACKEND = ["model"]


class _RealDB:
    """L2 back end: a real SQLite file; statements/commits tick the same Ctl."""

    def __init__(self):
        import os
        import sqlite3
        import tempfile
        self.sqlite3 = sqlite3
        self.dir = tempfile.mkdtemp(prefix="vf-c12-")
        self.path = os.path.join(self.dir, "tofu.db")
        self.rows = _RowsProxy(self)
        c = sqlite3.connect(self.path)
        c.execute("CREATE TABLE known_hosts (hostname TEXT NOT NULL, port INTEGER NOT NULL, fingerprint TEXT NOT NULL, "
                  "first_seen TEXT NOT NULL, last_seen TEXT NOT NULL, PRIMARY KEY (hostname, port))")
        c.commit()
        c.close()

    def pins(self):
        c = self.sqlite3.connect(self.path)
        out = {(h, p): (fp, fs) for h, p, fp, fs in c.execute("SELECT hostname, port, fingerprint, first_seen FROM known_hosts")}
        c.close()
        return out

    def cleanup(self):
        import shutil
        shutil.rmtree(self.dir, ignore_errors=True)


class _RowsProxy:
    def __init__(self, rdb):
        self.rdb = rdb

    def __setitem__(self, key, row):
        c = self.rdb.sqlite3.connect(self.rdb.path)
        c.execute("INSERT INTO known_hosts VALUES (?,?,?,?,?)", (row["hostname"], row["port"], row["fingerprint"],
                                                                  row["first_seen"], row["last_seen"]))
        c.commit()
        c.close()


class _RealSqlite:
    def __init__(self, rdb, ctl):
        import sqlite3
        self.rdb, self.ctl = rdb, ctl
        self.Row = sqlite3.Row
        for n in ("Error", "OperationalError", "IntegrityError", "DatabaseError", "ProgrammingError"):
            setattr(self, n, getattr(sqlite3, n))

    def connect(self, path, *a, **k):
        return _TickConn(self.rdb.sqlite3.connect(self.rdb.path), self.ctl)


class _TickConn:
    def __init__(self, conn, ctl):
        self._c, self._ctl = conn, ctl

    def cursor(self):
        return _TickCur(self._c.cursor(), self._ctl)

    def commit(self):
        self._ctl.tick("commit")
        return self._c.commit()

    def __setattr__(self, k, v):
        if k in ("_c", "_ctl"):
            object.__setattr__(self, k, v)
        else:
            setattr(self._c, k, v)

    def __getattr__(self, k):
        return getattr(self._c, k)


class _TickCur:
    def __init__(self, cur, ctl):
        self._cur, self._ctl = cur, ctl

    def execute(self, sql, params=()):
        self._ctl.tick(" ".join(sql.split())[:40])
        return self._cur.execute(sql, params)

    def __getattr__(self, k):
        return getattr(self._cur, k)


def _mk(kinds):
    """store whose KEYS[i] holds FP[kinds[i]-1] (0 = absent)"""
    real = BACKEND[0] == "real"
    db = _RealDB() if real else DB()
    for key, k in zip(KEYS, kinds):
        if k:
            db.rows[key] = dict(hostname=key[0], port=key[1], fingerprint=FP[k - 1], first_seen="t-old", last_seen="t-old")
    ctl = Ctl()
    bind(tofu, _sqlite3, _RealSqlite(db, ctl) if real else FakeSqlite(db, ctl))
    install_clock(tofu)
    tofu.get_certificate_fingerprint = lambda cert: cert      # certificates are represented by their fingerprint here
    import pathlib
    t = TOFUDatabase(pathlib.Path("model.db"))     # real constructor: its schema statement goes to the back end
    ctl.n = 0
    ctl.log = []
    return t, db, ctl


FILE = {"hosts": {
    "a_b.example:1965": dict(hostname=H[0], port=1965, fingerprint=FP[1], first_seen="t-file", last_seen="t-file"),
    "a-b.example:7000": dict(hostname=H[1], port=7000, fingerprint=FP[0], first_seen="t-file", last_seen="t-file"),
}}


def _ref_import(pins, entries, merge, cb):
    out = dict(pins) if merge else {}
    for e in entries:
        key = (e["hostname"], e["port"])
        if key not in out:
            out[key] = (e["fingerprint"], e["first_seen"])
        elif out[key][0] == e["fingerprint"]:
            pass
        elif cb == 1:
            out[key] = (e["fingerprint"], out[key][1])
    return out


def _after(op, pins):
    """reference result of operation ``op`` on the pin map"""
    out = dict(pins)
    k0 = KEYS[0]
    if op == 0:
        out[k0] = (FP[1], out[k0][1] if k0 in out else NOW)
    elif op == 1:
        pass
    elif op == 2:
        out.pop(k0, None)
    elif op == 3:
        for k in list(out):
            if k[0] == H[0]:
                del out[k]
    elif op == 4:
        out = {}
    elif op == 5:
        out = _ref_import(pins, list(FILE["hosts"].values()), True, 0)
    elif op == 6:
        out = _ref_import(pins, list(FILE["hosts"].values()), False, 0)
    return out


def _do(t, op):
    if op == 0:
        t.trust(H[0], 1965, FP[1])
    elif op == 1:
        t.verify(H[0], 1965, FP[0])
    elif op == 2:
        t.revoke(H[0], 1965)
    elif op == 3:
        t.revoke_by_hostname(H[0])
    elif op == 4:
        t.clear()
    else:
        bind(tofu, _tomllib, _FakeToml(FILE))
        tofu.open = lambda *a, **k: io.BytesIO(b"")
        t.import_toml(_FakePath(), merge=(op == 5))


def crash(op: int, k0: int, k1: int, k2: int, at: int) -> bool:
    """
    pre: 0 <= op <= 6
    pre: 0 <= k0 <= 2 and 0 <= k1 <= 2 and 0 <= k2 <= 2
    pre: 0 <= at <= MAXK
    post: _
    """
    t, db, ctl = _mk([k0, k1, k2])
    before = db.pins()
    after = _after(op, before)
    ctl.crash_at = at              # 0: no crash; n: the process dies right before the n-th statement/commit
    crashed = False
    try:
        _do(t, op)
    except Crash:
        crashed = True
    got = db.pins()                # what a reopened store would show: durable rows only
    if not crashed:
        if at != 0 and at <= ctl.n:
            return V(False)
        return V(got == after)
    return V(got == before or got == after)


def _on_real(fn, *args):
    """run a harness body against real SQLite files (L2 replay)"""
    BACKEND[0] = "real"
    try:
        return fn(*args)
    finally:
        BACKEND[0] = "model"
        import glob
        import shutil
        import tempfile
        for d in glob.glob(tempfile.gettempdir() + "/vf-c12-*"):
            shutil.rmtree(d, ignore_errors=True)


def crash_real(op, k0, k1, k2, at):
    return _on_real(crash, op, k0, k1, k2, at)


def import_fault2_real(a, b, merge, cb, fault_at):
    return _on_real(import_fault2, a, b, merge, cb, fault_at)


def import_fault3_real(a, b, c, merge, cb):
    return _on_real(import_fault3, a, b, c, merge, cb)


ENTRY_KINDS = 8


def _entry(kind, i, first):
    e = dict(hostname="n%d.example" % i, port=1965, fingerprint=FP[0], first_seen="t-file", last_seen="t-file")
    if kind == 1:
        e["hostname"] = H[0]
    elif kind == 2:
        e["hostname"], e["fingerprint"] = H[0], FP[1]
    elif kind == 3:
        del e["fingerprint"]
    elif kind == 4:
        e["port"] = 0
    elif kind == 5:
        e["fingerprint"] = "sha256:xyz"
    elif kind == 6:
        e["hostname"], e["port"] = first["hostname"], first.get("port", 1965)
    elif kind == 7:
        e["port"] = "1965"
    return e


def _import_fault(kinds, merge, cb, fault_at):
    t, db, ctl = _mk([1, 0, 2])
    before = db.pins()
    entries = []
    for i, k in enumerate(kinds):
        entries.append(_entry(k, i, entries[0] if entries else {"hostname": "n0.example"}))
    data = {"hosts": {"e%d" % i: e for i, e in enumerate(entries)}}
    bind(tofu, _tomllib, _FakeToml(data))
    tofu.open = lambda *a, **k: io.BytesIO(b"")

    def on_conflict(h, p, old, new):
        if cb == 3:
            raise RuntimeError("callback failed")
        return cb == 1
    ctl.fault_at = fault_at
    failed = False
    try:
        t.import_toml(_FakePath(), merge=merge, on_conflict=None if cb == 0 else on_conflict)
    except Exception:  # noqa: BLE001
        failed = True
    got = db.pins()
    if failed:
        if got != before:              # all-or-nothing
            return False
        # the same store object stays in use (one long-lived client): nothing of the failed import may surface with a
        # later, unrelated operation
        ctl.fault_at = 0
        t.trust("later.example", 1965, FP[0])
        want = dict(before)
        want[("later.example", 1965)] = (FP[0], NOW)
        return db.pins() == want
    valid = all(k in (0, 1, 2, 6) for k in kinds)
    if not valid:
        return False                   # a malformed entry was imported without complaint
    want = _ref_import(before, entries, merge, cb)
    # hosts the file does not name are untouched in merge mode
    return got == want


def import_fault2(a: int, b: int, merge: bool, cb: int, fault_at: int) -> bool:
    """
    pre: 0 <= a < ENTRY_KINDS and 0 <= b < ENTRY_KINDS
    pre: 0 <= cb <= 3 and 0 <= fault_at <= 10
    post: _
    """
    return V(_import_fault([a, b], merge, cb, fault_at))


def import_fault3(a: int, b: int, c: int, merge: bool, cb: int) -> bool:
    """
    pre: 0 <= a < ENTRY_KINDS and 0 <= b < ENTRY_KINDS and 0 <= c < ENTRY_KINDS
    pre: 0 <= cb <= 3
    post: _
    """
    return V(_import_fault([a, b, c], merge, cb, 0))


class _Sink(io.BytesIO):
    def close(self):
        pass


ALPHA = ["\"", "'", "\\", "=", ".", ":", "[", "]", "#", "\n", "\t", "\x00", "\x7f", " ", "x", "é", " ", ","]
PORTS = [1, 1965, 65535]


def roundtrip(a: int, b: int, two: bool, pi: int, fpk: int) -> bool:
    """
    pre: 0 <= a < len(ALPHA) and 0 <= b < len(ALPHA)
    pre: 0 <= pi < 3 and 0 <= fpk <= 1
    pre: (not two) or (pi == 1 and fpk == 0)
    pre: two or (b == 0 and fpk == (a % 2))
    post: _
    """
    name = "h" + ALPHA[a] + (ALPHA[b] if two else "") + ".example"
    t, db, ctl = _mk([1, 0, 0])
    db.rows[(name, PORTS[pi])] = dict(hostname=name, port=PORTS[pi], fingerprint=FP[fpk], first_seen="2025-12-31T23:59:59+00:00",
                                       last_seen="t-last")
    want = db.pins()
    sink = _Sink()
    tofu.open = lambda *a_, **k_: sink
    release(tofu, _tomllib)
    n = t.export_toml(_FakePath())
    if n != 2:
        return V(False)
    text = sink.getvalue()
    # import into an empty store
    t2, db2, ctl2 = _mk([0, 0, 0])
    release(tofu, _tomllib)
    tofu.open = lambda *a_, **k_: io.BytesIO(text)
    t2.import_toml(_FakePath(), merge=True)
    return V(db2.pins() == want)


def modelsql_valid():
    """Translation validation of the sqlite3 contract model: scripted statement sequences (the shapes
    tofu.py uses plus generic UPDATE/DELETE/SELECT forms, two connections, commit/close/rollback) are
    run on the model and on real SQLite; fetched rows, rowcounts, exceptions and durable contents must agree."""
    import os
    import shutil
    import sqlite3
    import tempfile
    A, B = FP
    ins = "INSERT INTO known_hosts (hostname, port, fingerprint, first_seen, last_seen) VALUES (?, ?, ?, ?, ?)"
    sel1 = "SELECT fingerprint FROM known_hosts WHERE hostname = ? AND port = ?"
    selall = "SELECT hostname, port, fingerprint, first_seen, last_seen FROM known_hosts ORDER BY last_seen DESC"
    scripts = [
        [("x", 0, ins, ("h", 1, A, "f", "l")), ("x", 1, sel1, ("h", 1)), ("c", 0), ("x", 1, sel1, ("h", 1))],
        [("x", 0, ins, ("h", 1, A, "f", "l")), ("x", 0, ins, ("h", 1, B, "f", "l")), ("c", 0)],
        [("x", 0, ins, ("h", 1, A, "f", "l")), ("close", 0), ("x", 1, selall, ())],
        [("x", 0, ins, ("h", 1, A, "f", "l1")), ("x", 0, ins, ("h", 2, B, "f", "l2")), ("c", 0),
         ("x", 1, "UPDATE known_hosts SET last_seen = ? WHERE hostname = ? AND fingerprint = ?", ("now", "h", A)), ("c", 1),
         ("x", 0, selall, ()), ("x", 0, "SELECT COUNT(*) FROM known_hosts WHERE hostname = ?", ("h",)),
         ("x", 0, "DELETE FROM known_hosts WHERE hostname = ? AND port = ?", ("h", 2)), ("x", 1, selall, ()), ("c", 0),
         ("x", 1, selall, ())],
        [("x", 0, ins, ("h", 1, A, "f", "l")), ("c", 0), ("x", 0, "DELETE FROM known_hosts", ()), ("x", 1, sel1, ("h", 1)),
         ("rb", 0), ("x", 0, sel1, ("h", 1))],
        [("x", 0, ins, ("a", 1, A, "f", "l")), ("x", 0, ins, ("b", 1, A, "f", "l")), ("c", 0),
         ("x", 0, "UPDATE known_hosts SET fingerprint = ?, last_seen = ? WHERE hostname = ? AND port = ?", (B, "n", "a", 1)),
         ("x", 0, "DELETE FROM known_hosts WHERE hostname = ?", ("zzz",)), ("c", 0), ("x", 1, selall, ())],
        [("x", 0, "INSERT OR REPLACE INTO known_hosts (hostname, port, fingerprint, first_seen, last_seen) VALUES (?, ?, ?, ?, ?)",
          ("h", 1, A, "f", "l")), ("x", 0, "INSERT OR REPLACE INTO known_hosts (hostname, port, fingerprint, first_seen, last_seen) VALUES (?, ?, ?, ?, ?)",
          ("h", 1, B, "f2", "l2")), ("c", 0), ("x", 1, selall, ())],
        [("x", 0, ins, ("h", 1, A, "f", "l")), ("c", 0),
         ("x", 0, "INSERT INTO known_hosts (hostname, port, fingerprint, first_seen, last_seen) VALUES (:h, :p, :fp, :now, :now) "
                  "ON CONFLICT (hostname, port) DO UPDATE SET fingerprint = :fp, last_seen = :now", {"h": "h", "p": 1, "fp": B, "now": "n2"}),
         ("x", 0, "INSERT INTO known_hosts (hostname, port, fingerprint, first_seen, last_seen) VALUES (:h, :p, :fp, :now, :now) "
                  "ON CONFLICT (hostname, port) DO UPDATE SET fingerprint = fingerprint, last_seen = excluded.last_seen", {"h": "h", "p": 1, "fp": A, "now": "n3"}),
         ("x", 0, "INSERT INTO known_hosts (hostname, port, fingerprint, first_seen, last_seen) VALUES (?, ?, ?, ?, ?) "
                  "ON CONFLICT (hostname, port) DO NOTHING", ("h", 1, A, "zz", "zz")),
         ("x", 0, "INSERT INTO known_hosts (hostname, port, fingerprint, first_seen, last_seen) VALUES (:h, :p, :fp, :now, :now) "
                  "ON CONFLICT (hostname, port) DO UPDATE SET fingerprint = :fp", {"h": "new", "p": 2, "fp": A, "now": "n4"}),
         ("c", 0), ("x", 1, selall, ())],
        [("x", 0, ins, ("a_b", 1, A, "f", "l")), ("x", 0, ins, ("a-b", 1, A, "f", "l")), ("x", 0, ins, ("A_B", 2, A, "f", "l")), ("c", 0),
         ("x", 0, "SELECT COUNT(*) FROM known_hosts WHERE hostname LIKE ?", ("a_b",)),
         ("x", 0, "DELETE FROM known_hosts WHERE hostname LIKE ?", ("a_b",)), ("c", 0), ("x", 1, selall, ())],
    ]
    n = 0
    bad = []
    for si, script in enumerate(scripts):
        d = tempfile.mkdtemp(prefix="vf-sqlv-")
        try:
            path = os.path.join(d, "t.db")
            rc = sqlite3.connect(path)
            rc.execute("CREATE TABLE known_hosts (hostname TEXT NOT NULL, port INTEGER NOT NULL, fingerprint TEXT NOT NULL, "
                       "first_seen TEXT NOT NULL, last_seen TEXT NOT NULL, PRIMARY KEY (hostname, port))")
            rc.commit()
            rc.close()
            db, ctl = DB(), Ctl()
            fake = FakeSqlite(db, ctl)
            conns = {"m": {}, "r": {}}
            for step in script:
                outs = []
                for side in ("m", "r"):
                    cid = step[1]
                    if cid not in conns[side]:
                        conns[side][cid] = fake.connect("x") if side == "m" else sqlite3.connect(path)
                        if side == "r":
                            conns[side][cid].row_factory = sqlite3.Row
                    cn = conns[side][cid]
                    try:
                        if step[0] == "x":
                            cur = cn.cursor()
                            cur.execute(step[2], step[3])
                            if step[2].lstrip().upper().startswith("SELECT"):
                                outs.append(("rows", sorted(tuple(r[k] for k in r.keys()) for r in cur.fetchall())))
                            else:
                                outs.append(("rc", cur.rowcount))
                        elif step[0] == "c":
                            cn.commit()
                            outs.append(("ok",))
                        elif step[0] == "rb":
                            cn.rollback()
                            outs.append(("ok",))
                        elif step[0] == "close":
                            cn.close()
                            del conns[side][cid]
                            outs.append(("ok",))
                    except sqlite3.Error as e:
                        outs.append(("err", type(e).__name__))
                n += 1
                if outs[0] != outs[1]:
                    bad.append((si, step[:3], outs))
            for cn in conns["r"].values():
                cn.close()
            rc = sqlite3.connect(path)
            real_final = sorted(rc.execute("SELECT hostname, port, fingerprint, first_seen, last_seen FROM known_hosts").fetchall())
            rc.close()
            model_final = sorted(tuple(r[k] for k in ("hostname", "port", "fingerprint", "first_seen", "last_seen")) for r in db.rows.values())
            n += 1
            if real_final != model_final:
                bad.append((si, "final", (model_final, real_final)))
        finally:
            shutil.rmtree(d, ignore_errors=True)
    return {"state": "DIFF", "verdict": "confirmed" if not bad else "harness-error", "queries": n, "paths": n,
            "message": "" if not bad else "ModelSQL disagrees with SQLite: %r" % (bad[:2],),
            "samples": [{"scripts": len(scripts), "steps_compared": n}]}


META = {
    "files": ["src/nauyaca/security/tofu.py"],
    "level": "model_checking",
    "explanation": ("Bounded symbolic execution of the real TOFUDatabase methods against a contract model of sqlite3: the "
                    "crash point (process dies before the k-th SQL statement or commit), the injected SQLite error point, the "
                    "pre-store, the operation, the kinds of the import entries, merge/replace and the conflict callback are "
                    "solver-chosen; the durable table after a failure must equal the table before (or after) exactly."),
    "assumptions": [
        "ModelSQL: a connection's writes become durable only at commit(); close(), rollback or a crash discard them; other "
        "connections see only durable rows; PRIMARY KEY violations raise IntegrityError (Python sqlite3 legacy transaction control)",
        "SQLite itself makes a committed transaction durable and an uncommitted one invisible after a crash (trusted)",
        "certificates are represented by their fingerprint (get_certificate_fingerprint is a pure function, checked in C03)",
        "round trip: host-name characters are a discrete dimension (18 TOML-significant characters, 1..2 positions); "
        "lone surrogates in host names are outside the engine's string domain",
    ],
    "trusted": ["CrossHair 0.0.110 / z3 5.1", "SQLite journal", "tomli_w / tomllib executed for real"],
}

FN = ["TOFUDatabase.trust", "verify", "revoke", "revoke_by_hostname", "clear", "import_toml", "export_toml", "get_host_info",
      "list_hosts", "_validate_fingerprint", "_connection"]
OBLIGATIONS = [
    Ob("modelsql_valid", modelsql_valid, kind="diff", quick=120, thorough=300, twin=False,
       symbolic="(translation validation of the sqlite3 contract model against real SQLite; not a claim about nauyaca)",
       functions=["vf.modelsql"]),
    Ob("crash", crash, quick=300, thorough=900, real_replay=crash_real,
       symbolic="operation (trust / verify / revoke / revoke_by_hostname / clear / import merge / import replace), pre-store "
                "(3 keys x {absent, fp A, fp B}), crash index 0..14 (statement or commit boundary)",
       functions=FN, stubs=["ModelSQL", "FakeDatetime", "tomllib.load patched (parsed dict given)"]),
    Ob("import_fault2", import_fault2, quick=400, thorough=1200, real_replay=import_fault2_real,
       symbolic="2 import entries each of 8 kinds (new / same fp / conflicting fp / missing field / port 0 / bad fingerprint / "
                "duplicate of the first / port of wrong type), merge or replace, conflict callback (absent/True/False/raises), "
                "injected sqlite3.OperationalError at statement 0..10",
       functions=FN, stubs=["ModelSQL", "FakeDatetime", "tomllib.load patched"]),
    Ob("import_fault3", import_fault3, quick=800, thorough=1800, real_replay=import_fault3_real,
       symbolic="3 import entries each of 8 kinds, merge or replace, conflict callback kind", functions=FN,
       stubs=["ModelSQL", "FakeDatetime", "tomllib.load patched"]),
    Ob("roundtrip", roundtrip, quick=300, thorough=900,
       symbolic="host name with 1..2 characters chosen by symbolic index from 18 TOML-significant characters, port in {1,1965,65535}, fingerprint",
       functions=["TOFUDatabase.export_toml", "import_toml", "tomli_w.dump", "tomllib.load"], stubs=["ModelSQL", "in-memory file"],
       note="discrete dimensions"),
]
