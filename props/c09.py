"""C09 - IP access control decides exactly as configured, for every address"""
import ipaddress

import z3

import nauyaca.protocol.request  # noqa: F401
import nauyaca.server.middleware as mw
from nauyaca.server.config import ServerConfig
from nauyaca.server.middleware import AccessControl, AccessControlConfig

from vf import HarnessError, Ob, V, internal, pick, rebind, unbind
from vf.capture import capture, inner_protocol
from vf.smt import decide
from vf.stubs import drive

TMO = pick(60, 300)


# ---- contract stub of ipaddress objects inside AccessControl --------------------------------
class SymNet:
    """network = (version, lo, hi); containment as ipaddress defines it (same version and
    lo <= ip <= hi).  Tied to CIDR semantics by the bit-vector lemma below."""

    def __init__(self, version, lo, hi):
        self.version, self.lo, self.hi = version, lo, hi

    def __contains__(self, addr):
        return addr.version == self.version and self.lo <= addr.value <= self.hi

    # interval versions of the network-to-network relations of ipaddress (same contract: same
    # version and interval inclusion / intersection); ipaddress raises TypeError across versions
    def subnet_of(self, other):
        if self.version != other.version:
            raise TypeError("%s and %s are not of the same version" % (self, other))
        return other.lo <= self.lo and self.hi <= other.hi

    def supernet_of(self, other):
        if self.version != other.version:
            raise TypeError("%s and %s are not of the same version" % (self, other))
        return self.lo <= other.lo and other.hi <= self.hi

    def overlaps(self, other):
        return self.version == other.version and self.lo <= other.hi and other.lo <= self.hi

    def __getattr__(self, name):
        # an implementation that looks at anything else (netmask, network_address, ...) is outside
        # what this contract stub models: machinery error, never a verdict about nauyaca
        raise HarnessError("SymNet does not model attribute %r" % name)


class SymAddr:
    def __init__(self, version, value):
        self.version, self.value = version, value

    def __getattr__(self, name):
        raise HarnessError("SymAddr does not model attribute %r" % name)

    def __int__(self):
        raise HarnessError("SymAddr does not model int()")


class _unmodelled:
    """stands for the ipaddress classes (usable in isinstance / annotations, not constructible)"""

    def __new__(cls, *a, **k):
        raise HarnessError("only ip_network / ip_address are modelled by the interval stub")


def logic(nd: int, d1v: int, d1lo: int, d1hi: int, d2v: int, d2lo: int, d2hi: int,
          na: int, a1v: int, a1lo: int, a1hi: int, a2v: int, a2lo: int, a2hi: int,
          pv: int, pval: int, malformed: bool, default_allow: bool) -> bool:
    """
    pre: 0 <= nd <= 2 and 0 <= na <= 2
    pre: 4 <= d1v <= 6 and 4 <= d2v <= 6 and 4 <= a1v <= 6 and 4 <= a2v <= 6 and 4 <= pv <= 6
    pre: d1v != 5 and d2v != 5 and a1v != 5 and a2v != 5 and pv != 5
    pre: 0 <= d1lo <= d1hi < 2**128 and 0 <= d2lo <= d2hi < 2**128
    pre: 0 <= a1lo <= a1hi < 2**128 and 0 <= a2lo <= a2hi < 2**128
    pre: 0 <= pval < 2**128
    post: _
    """
    deny = [SymNet(d1v, d1lo, d1hi), SymNet(d2v, d2lo, d2hi)][:nd]
    allow = [SymNet(a1v, a1lo, a1hi), SymNet(a2v, a2lo, a2hi)][:na]
    table = {"d0": deny[0] if nd > 0 else None, "d1": deny[1] if nd > 1 else None,
             "a0": allow[0] if na > 0 else None, "a1": allow[1] if na > 1 else None}

    def fake_ip_network(text, strict=True):
        return table[text]

    def fake_ip_address(s):
        if malformed:
            raise ValueError("does not appear to be an IPv4 or IPv6 address")
        return SymAddr(pv, pval)
    undo = rebind(mw, ipaddress, {"ip_network": fake_ip_network, "ip_address": fake_ip_address,
                                  "IPv4Network": _unmodelled, "IPv6Network": _unmodelled, "IPv4Address": _unmodelled,
                                  "IPv6Address": _unmodelled, "ip_interface": _unmodelled})
    try:
        # the real constructor runs (whatever it precomputes), the list entries are keys of ``table``
        ac = AccessControl(AccessControlConfig(allow_list=["a0", "a1"][:na] or None, deny_list=["d0", "d1"][:nd] or None,
                                               default_allow=default_allow))
        (ok, resp), exc = drive(ac.process_request("gemini://h/", "peer-address-text"))
    finally:
        unbind(undo)
    if isinstance(exc, HarnessError):
        raise exc
    if exc is not None:
        return V(False)
    # the property, written independently
    in_deny = any(n.version == pv and n.lo <= pval <= n.hi for n in deny)
    in_allow = any(n.version == pv and n.lo <= pval <= n.hi for n in allow)
    want = (not malformed) and (not in_deny) and (in_allow if na > 0 else default_allow)
    if ok != want:
        return V(False)
    if ok:
        return V(resp is None)
    return V(isinstance(resp, str) and resp.startswith("53 ") and resp.endswith("\r\n") and "\n" not in resp[:-2])


def cidr_lemma():
    """(ip & mask(p)) == base  <=>  base <= ip <= base | ~mask(p)  <=>  ip>>(w-p) == base>>(w-p),
    for every aligned base, prefix length p and ip, at w = 32 and w = 128."""
    recs = []
    for w in (32, 128):
        ip, base, p = z3.BitVecs("ip base p", w)
        W = z3.BitVecVal(w, w)
        ones = z3.BitVecVal(-1, w)
        pre = z3.ULE(p, W)
        hostbits = W - p
        mask = ones ^ z3.LShR(ones, p)         # ipaddress._ip_int_from_prefix: ALL_ONES ^ (ALL_ONES >> p)
        aligned = (base & ~mask) == 0
        impl = (ip & mask) == base             # _BaseNetwork.__contains__
        interval = z3.And(z3.ULE(base, ip), z3.ULE(ip, base | ~mask))   # the SymNet contract
        shift = z3.LShR(ip, hostbits) == z3.LShR(base, hostbits)        # independent integer oracle
        recs.append(decide("w=%d impl <-> interval" % w, [pre, aligned, z3.Not(impl == interval)], TMO, logic="QF_BV"))
        recs.append(decide("w=%d impl <-> shift oracle" % w, [pre, aligned, z3.Not(impl == shift)], TMO, logic="QF_BV"))
        recs.append(decide("w=%d twin: a contained address exists" % w, [pre, aligned, impl, p != 0], TMO, logic="QF_BV", cross=False))
    ok = all(r["z3"] == "unsat" for r in recs if "twin" not in r["query"])
    twins = all(r["z3"] == "sat" for r in recs if "twin" in r["query"])
    bad_cross = [r for r in recs if r.get("disagree")]
    verdict = "confirmed" if ok and twins and not bad_cross else ("harness-error" if not twins else "inconclusive")
    if any(r["z3"] == "sat" for r in recs if "twin" not in r["query"]):
        verdict = "harness-error"              # the stub contract itself would be wrong
    return {"state": "SMT", "verdict": verdict, "queries": len(recs), "paths": len(recs), "solvers": recs,
            "message": "" if verdict == "confirmed" else "CIDR lemma not established"}


ALLOW = [None, [], ["10.0.0.0/8"], ["10.0.0.0/8", "2001:db8::/32"], ["10.1.2.0/24"], ["10.0.0.0/33"], ["10.0.0.1/8"], ["not-an-ip"]]
NGOOD_A, NGOOD_D = 5, 4
DENY = [None, [], ["10.1.0.0/16"], ["10.1.0.0/16", "2001:db8:1::/48"], ["::1/129"]]
PEERS = ["10.1.2.3", "10.2.0.1", "192.0.2.1", "2001:db8:1::5", "2001:db8:2::5", "bogus", "2001:db9::a02:1", "10.1.2", "fe80::1%eth0"]
IN_ALLOW = [{1: 0, 2: 0}, {}, {"10.1.2.3", "10.2.0.1"}, {"10.1.2.3", "10.2.0.1", "2001:db8:1::5", "2001:db8:2::5"}, {"10.1.2.3"}]
IN_DENY = [set(), set(), {"10.1.2.3"}, {"10.1.2.3", "2001:db8:1::5"}]
UNPARSEABLE = {"bogus", "10.1.2"}


def _config(enabled, ai, di, default_allow, pi, rate):
    # (contract on the partitioned wrappers)
    cfg = ServerConfig(host="localhost", port=1965, document_root=_root(), enable_rate_limiting=rate,
                       enable_access_control=enabled, access_control_allow_list=ALLOW[ai],
                       access_control_deny_list=DENY[di], access_control_default_allow=default_allow)
    bad_entry = ai >= NGOOD_A or di >= NGOOD_D
    try:
        cap = capture(cfg, enable_rate_limiting=cfg.enable_rate_limiting,
                      rate_limit_config=cfg.get_rate_limit_config(),
                      access_control_config=cfg.get_access_control_config())
    except ValueError:
        # start-up refused: only acceptable for an entry that cannot be interpreted
        return V(bad_entry and enabled)
    if bad_entry and enabled:
        return V(False)                       # a list entry that cannot be interpreted must prevent start-up
    proto = inner_protocol(cap)
    chain = internal(proto, "middleware")
    peer = PEERS[pi]
    if chain is None:
        got = True
    else:
        (got, resp), exc = drive(chain.process_request("gemini://localhost/", peer, None))
        if exc is not None:
            return V(False)
        if not got and not (isinstance(resp, str) and resp[:3] in ("53 ", "44 ")):
            return V(False)
    if not enabled:
        return V(got is True)
    a_list, d_list = ALLOW[ai], DENY[di]
    in_d = peer in IN_DENY[di]
    has_allow = bool(a_list)
    in_a = peer in IN_ALLOW[ai] if has_allow else False
    if peer in UNPARSEABLE or "%" in peer:
        # cannot be parsed (or a scoped address: grey zone) -> refused whenever a policy is in force
        policy_in_force = has_allow or bool(d_list) or not default_allow
        if "%" in peer:
            return True
        return V(got == (not policy_in_force))
    want = (not in_d) and (in_a if has_allow else default_allow)
    return V(got == want)


def config_lists(ai: int, di: int, default_allow: bool, pi: int) -> bool:
    """
    pre: 0 <= ai < NGOOD_A and 0 <= di < NGOOD_D and 0 <= pi < 7
    post: _
    """
    return _config(True, ai, di, default_allow, pi, False)


def config_bad_entries(ai: int, di: int, default_allow: bool, enabled: bool) -> bool:
    """
    pre: 0 <= ai < len(ALLOW) and 0 <= di < len(DENY)
    pre: ai >= NGOOD_A or di >= NGOOD_D
    post: _
    """
    return _config(enabled, ai, di, default_allow, 0, False)


def config_switches(ai: int, di: int, default_allow: bool, pi: int, enabled: bool, rate: bool) -> bool:
    """
    pre: (ai == 0 or ai == 2) and (di == 0 or di == 2) and 0 <= pi < len(PEERS)
    pre: (not enabled) or rate
    post: _
    """
    return _config(enabled, ai, di, default_allow, pi, rate)


_ROOT = None


def _root():
    import pathlib
    return pathlib.Path("/usr")      # any existing directory; nothing is served in this obligation


def text_boundaries():
    """Differential replay layer (not a symbolic claim): boundary addresses of CIDR blocks chosen by
    z3 are rendered as text and pushed through the real AccessControl(config) and the integer oracle."""
    import random
    rnd = random.Random(1)
    n = 0
    bad = []
    samples = []
    for w, plist in ((32, (0, 1, 8, 31, 32)), (128, (0, 1, 64, 127, 128))):
        for p in plist:
            base_bv, = z3.BitVecs("base", w)
            s = z3.Solver()
            ones = z3.BitVecVal(-1, w)
            mask = ones ^ z3.LShR(ones, z3.BitVecVal(p, w)) if p < w else ones
            if p == 0:
                mask = z3.BitVecVal(0, w)
            s.add((base_bv & ~mask) == 0, base_bv != 0 if p else base_bv == 0)
            if str(s.check()) != "sat":
                continue
            base = s.model()[base_bv].as_long()
            size = 1 << (w - p)
            cands = {base, base + size - 1, (base - 1) % (1 << w), (base + size) % (1 << w), rnd.randrange(1 << w)}
            mk_addr = ipaddress.IPv4Address if w == 32 else ipaddress.IPv6Address
            cidr = "%s/%d" % (mk_addr(base), p)
            for mode in ("allow", "deny"):
                ac = AccessControl(AccessControlConfig(allow_list=[cidr] if mode == "allow" else None,
                                                       deny_list=[cidr] if mode == "deny" else None,
                                                       default_allow=True))
                for ipi in cands:
                    inside = (ipi >> (w - p)) == (base >> (w - p)) if p else True
                    want = inside if mode == "allow" else not inside
                    got = drive(ac.process_request("gemini://h/", str(mk_addr(ipi))))[0][0]
                    n += 1
                    if got != want:
                        bad.append((cidr, mode, str(mk_addr(ipi)), got, want))
                    if w == 128:
                        # a scoped peer (what getpeername() reports for link-local peers) decides by its integer value
                        for zone in ("%eth0", "%1"):
                            got = drive(ac.process_request("gemini://h/", str(mk_addr(ipi)) + zone))[0][0]
                            n += 1
                            if got != want:
                                bad.append((cidr, mode, str(mk_addr(ipi)) + zone, got, want))
                # the other address family never matches, whatever its integer value looks like
                other = ipaddress.IPv6Address if w == 32 else ipaddress.IPv4Address
                for ipi in (base, base + size - 1):
                    ov = ipi if w == 32 else ipi & 0xFFFFFFFF
                    for val in ({ov, (0x20010DB8 << 96) | ov} if w == 32 else {ov}):
                        want = False if mode == "allow" else True
                        got = drive(ac.process_request("gemini://h/", str(other(val))))[0][0]
                        n += 1
                        if got != want:
                            bad.append((cidr, mode, str(other(val)), got, want))
            samples.append({"cidr": cidr, "probed": len(cands) * 2})
    return {"state": "DIFF", "verdict": "confirmed" if not bad else "refuted", "queries": n, "paths": n,
            "message": "" if not bad else "real AccessControl disagrees with the integer oracle: %r" % (bad[:3],),
            "call": None if not bad else "text_boundaries()", "samples": samples[:4],
            "replay": {"reproduced": True, "detail": repr(bad[:3])} if bad else None}


META = {
    "files": ["src/nauyaca/server/middleware.py", "src/nauyaca/server/config.py", "src/nauyaca/server/server.py"],
    "level": "model_checking",
    "engine": "crosshair+z3 (logic, config) and z3+cvc5 bit-vectors (CIDR lemma)",
    "explanation": ("The decision logic of the real AccessControl is executed symbolically over lists of up to 2 deny and 2 "
                    "allow networks given as (version, lo, hi) with 128-bit symbolic bounds and a symbolic peer address; the "
                    "interval contract of that stub is tied to CIDR semantics by a bit-vector lemma (BV32, BV128) proved for "
                    "every base, prefix length and address; the path from ServerConfig through the real start_server assembly "
                    "to the running chain is executed for symbolic choices of list presence and default policy."),
    "assumptions": [
        "SymNet/SymAddr: ipaddress containment = same version and lo <= ip <= hi (cidr_lemma + text_boundaries tie it to reality)",
        "textual CIDR / address parsing is stdlib code that the engine concretises: covered only by the text_boundaries differential",
        "IPv4-mapped IPv6 peers against IPv4 entries are a grey zone (undecided); scoped IPv6 peers decide by their integer value "
        "(probed in text_boundaries with two zone spellings)",
    ],
    "trusted": ["CrossHair 0.0.110 / z3 5.1 / cvc5 1.4", "Python ipaddress"],
}

OBLIGATIONS = [
    Ob("logic", logic, quick=300, thorough=1200,
       symbolic="0..2 deny and 0..2 allow networks (version 4/6, 128-bit lo<=hi), peer (version, 128-bit value) or malformed, default policy",
       functions=["AccessControl._is_allowed", "AccessControl.process_request"], stubs=["SymNet", "SymAddr", "ip_address patched"],
       outside=["more than 2 entries per list"]),
    Ob("cidr_lemma", cidr_lemma, kind="smt", quick=200, thorough=900, twin=False,
       symbolic="base, prefix length, address: bit-vectors of width 32 and 128",
       functions=["ipaddress._BaseNetwork.__contains__ (transcribed)", "ipaddress._ip_int_from_prefix (transcribed)"]),
    Ob("config_lists", config_lists, quick=400, thorough=1200,
       symbolic="allow-list form (absent / empty / 1 / 2 entries / 1 entry that lies inside a deny entry), deny-list form (absent / empty / 1 / 2 entries), default policy, "
                "peer (7 incl. an unparseable one and an IPv6 address whose low 32 bits equal an allowed IPv4 address); access control enabled, no rate limiter",
       functions=["ServerConfig.get_access_control_config", "get_rate_limit_config", "start_server (assembly)", "AccessControl.__init__", "MiddlewareChain.process_request"], stubs=["ServerCapture (MiniLoop.create_server, TLS context factories, logging)"], note="discrete dimensions"),
    Ob("config_bad_entries", config_bad_entries, quick=300, thorough=900,
       symbolic="at least one list holds an entry that cannot be interpreted (prefix too long, host bits set, not an address)",
       functions=["ServerConfig.get_access_control_config", "get_rate_limit_config", "start_server (assembly)", "AccessControl.__init__", "MiddlewareChain.process_request"], stubs=["ServerCapture"], note="discrete dimensions"),
    Ob("config_switches", config_switches, quick=400, thorough=1200,
       symbolic="access control disabled, or enabled together with the rate limiter; 2x2 list forms, default policy, 9 peers",
       functions=["ServerConfig.get_access_control_config", "get_rate_limit_config", "start_server (assembly)", "AccessControl.__init__", "MiddlewareChain.process_request"], stubs=["ServerCapture"], note="discrete dimensions"),
    Ob("text_boundaries", text_boundaries, kind="diff", quick=120, thorough=300, twin=False,
       symbolic="(differential replay of solver-chosen block boundaries through the real text parser)",
       functions=["AccessControl.__init__", "AccessControl._is_allowed"]),
]
