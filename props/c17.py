"""C17 - the reverse proxy only talks to its upstream and maps URLs faithfully"""
import nauyaca.protocol.request  # noqa: F401
import nauyaca.server.proxy as px
from nauyaca.protocol.request import GeminiRequest
from nauyaca.protocol.response import GeminiResponse
from nauyaca.server.config import ServerConfig
from nauyaca.server.location import HandlerType, LocationConfig
from nauyaca.server.proxy import ProxyHandler
from nauyaca.utils.url import parse_url

import vf.server  # noqa: F401
from vf import NoLog, Ob, V, internal, pick
from vf.stubs import drive

px.logger = NoLog()

TWO = pick(False, True)       # quick: one symbolic character per obligation, thorough: two
UPSTREAMS = ["gemini://up.example", "gemini://up.example:1966", "gemini://up.example/", "gemini://up.example:1965/base",
             "gemini://[2001:db8::9]:1970"]
PREFIXES = ["/", "/api", "/api/", "/a/b/"]


def is_pathchar(i):
    """printable ASCII that may appear in a request path without ending it ('?' '#') ; includes
    '@' ':' ';' '%' '/' '.' and friends"""
    return 0x21 <= i <= 0x7e and i != 0x23 and i != 0x3f and i != 0x5b and i != 0x5d and i != 0x5c and i != 0x5e \
        and i != 0x60 and i != 0x7b and i != 0x7c and i != 0x7d and i != 0x22 and i != 0x3c and i != 0x3e


def _proxy(ui, pi, strip):
    h = ProxyHandler(UPSTREAMS[ui], prefix=PREFIXES[pi], strip_prefix=strip, timeout=5.0)
    seen = []

    async def fake_get(url, follow_redirects=True):
        seen.append((url, follow_redirects))
        return GeminiResponse(status=20, meta="text/gemini", body="ok", url=url)
    internal(h, "_client").get = fake_get
    return h, seen


def _ref_path(path, prefix, strip):
    """the property's mapping, written independently: strip the location prefix only on a segment boundary"""
    if not strip:
        return path
    if prefix.endswith("/"):
        if path.startswith(prefix):
            rest = path[len(prefix):]
            return rest if rest.startswith("/") else "/" + rest
        return path
    if path == prefix:
        return "/"
    if path.startswith(prefix + "/"):
        return path[len(prefix):]
    return path


def _split_client_url(url):
    """path and query exactly as the client wrote them (no URL library involved)"""
    rest = url[len("gemini://"):]
    i = rest.find("/")
    q = rest.find("?")
    if i < 0 or (0 <= q < i):
        pathq = rest[q:] if q >= 0 else ""
        path, query = "", pathq[1:] if pathq else None
    else:
        pathq = rest[i:]
        if "?" in pathq:
            path, query = pathq.split("?", 1)
        else:
            path, query = pathq, None
    return path or "/", query


def _check(ui, pi, strip, url):
    try:
        req = GeminiRequest.from_line(url)
    except ValueError:
        return True                              # not a valid request: never reaches a handler (C08)
    h, seen = _proxy(ui, pi, strip)
    resp, exc = drive(internal(h, "_handle_async")(req))
    if exc is not None or len(seen) != 1:
        return False
    up_url, follow = seen[0]
    if follow:
        return False                             # upstream redirects must not be followed by the proxy
    # (1) only the configured upstream host and port
    base = parse_url(UPSTREAMS[ui])
    try:
        target = parse_url(up_url)
    except ValueError:
        return False
    if target.hostname != base.hostname or target.port != base.port:
        return False
    # (2) the URL is upstream base + mapped path + client's query, nothing added or dropped
    cpath, cquery = _split_client_url(url)
    want = UPSTREAMS[ui].rstrip("/") + _ref_path(cpath, PREFIXES[pi], strip)
    if cquery:
        want += "?" + cquery
    return up_url == want


def _map1(ui, pi, strip, a, b, sk):
    # (contract on the partitioned wrappers)
    tail = chr(a) + chr(b)
    url = ["gemini://front/" + tail, "gemini://front/api/" + tail, "gemini://front/api" + tail,
           "gemini://front/a/b/" + tail + "/z"][sk]
    return V(_check(ui, pi, strip, url))


def map1_root(ui: int, pi: int, strip: bool, a: int, b: int) -> bool:
    """
    pre: 0 <= ui < len(UPSTREAMS) and 0 <= pi < len(PREFIXES)
    pre: is_pathchar(a) and is_pathchar(b)
    pre: TWO or b == 0x78
    post: _
    """
    return _map1(ui, pi, strip, a, b, 0)


def map1_api_slash(ui: int, pi: int, strip: bool, a: int, b: int) -> bool:
    """
    pre: 0 <= ui < len(UPSTREAMS) and 0 <= pi < len(PREFIXES)
    pre: is_pathchar(a) and is_pathchar(b)
    pre: TWO or b == 0x78
    post: _
    """
    return _map1(ui, pi, strip, a, b, 1)


def map1_api_glued(ui: int, pi: int, strip: bool, a: int, b: int) -> bool:
    """
    pre: 0 <= ui < len(UPSTREAMS) and 0 <= pi < len(PREFIXES)
    pre: is_pathchar(a) and is_pathchar(b)
    pre: TWO or b == 0x78
    post: _
    """
    return _map1(ui, pi, strip, a, b, 2)


def map1_nested(ui: int, pi: int, strip: bool, a: int, b: int) -> bool:
    """
    pre: 0 <= ui < len(UPSTREAMS) and 0 <= pi < len(PREFIXES)
    pre: is_pathchar(a) and is_pathchar(b)
    pre: TWO or b == 0x78
    post: _
    """
    return _map1(ui, pi, strip, a, b, 3)


def _map_query(ui, pi, strip, a, q, sk):
    # (contract on the partitioned wrappers)
    url = ["gemini://front/api/x" + chr(a) + "?k=" + chr(q), "gemini://front?" + chr(q) + chr(a),
           "gemini://front/api?" + chr(q) + "=" + chr(a) + "&u=gemini://evil/"][sk]
    return V(_check(ui, pi, strip, url))


def map_query_0(ui: int, pi: int, strip: bool, a: int, q: int) -> bool:
    """
    pre: 0 <= ui < len(UPSTREAMS) and 0 <= pi < len(PREFIXES)
    pre: is_pathchar(a) and 0x21 <= q <= 0x7e and q != 0x23
    pre: TWO or a == 0x78
    post: _
    """
    return _map_query(ui, pi, strip, a, q, 0)


def map_query_1(ui: int, pi: int, strip: bool, a: int, q: int) -> bool:
    """
    pre: 0 <= ui < len(UPSTREAMS) and 0 <= pi < len(PREFIXES)
    pre: is_pathchar(a) and 0x21 <= q <= 0x7e and q != 0x23
    pre: TWO or a == 0x78
    post: _
    """
    return _map_query(ui, pi, strip, a, q, 1)


def map_query_2(ui: int, pi: int, strip: bool, a: int, q: int) -> bool:
    """
    pre: 0 <= ui < len(UPSTREAMS) and 0 <= pi < len(PREFIXES)
    pre: is_pathchar(a) and 0x21 <= q <= 0x7e and q != 0x23
    pre: TWO or a == 0x78
    post: _
    """
    return _map_query(ui, pi, strip, a, q, 2)


SHAPES = ["/api", "/api/", "/apikey", "/api//x", "/api/../secret", "/api/%2e%2e/x", "/api;v=1/x;p", "/API/x", "//api/x",
          "/a/b", "/a/b/", "/a/bc", "/", "", "/api/@evil.example/", "/api/x:y@z", "/%2Fapi/x"]


def map_shapes(ui: int, pi: int, strip: bool, si: int, hq: bool) -> bool:
    """
    pre: 0 <= ui < len(UPSTREAMS) and 0 <= pi < len(PREFIXES) and 0 <= si < len(SHAPES)
    post: _
    """
    return V(_check(ui, pi, strip, "gemini://front" + SHAPES[si] + ("?q=1" if hq else "")))


NROUTE = pick(9, len(SHAPES))
NROUTE3 = pick(5, len(SHAPES))
LOCS = ["/", "/api", "/api/", "/apikey/", "/static/"]


def _route(l1, l2, l3, n, si, same_up, strip):
    # (contract on the partitioned wrappers)
    import pathlib
    picks = [l1, l2, l3][:n]
    ups = ["gemini://shared.example" if same_up else "gemini://u%d.example" % i for i in range(n)]
    locs = [LocationConfig(prefix=LOCS[p], handler_type=HandlerType.PROXY, upstream=ups[i], strip_prefix=strip)
            for i, p in enumerate(picks)]
    cfg = ServerConfig(document_root=pathlib.Path("/usr"), locations=locs)
    router = cfg.get_location_router()
    hit = []
    seen_handlers = []
    for r_i, r in enumerate(router.routes):
        ph = internal(r.handler, "__self__")
        if any(ph is x for x in seen_handlers):
            continue                       # (an implementation may share handler objects between locations)
        seen_handlers.append(ph)

        async def fake_get(url, follow_redirects=True, _i=r_i):
            hit.append((_i, url))
            return GeminiResponse(status=20, meta="text/gemini", body="ok")
        internal(ph, "_client").get = fake_get
    try:
        req = GeminiRequest.from_line("gemini://front" + SHAPES[si])
    except ValueError:
        return True
    res = router.route(req)
    if hasattr(res, "send"):
        res, exc = drive(res)
    # reference: first registered prefix that is a prefix of the path
    want = None
    for i, p in enumerate(picks):
        if req.path.startswith(LOCS[p]):
            want = i
            break
    if want is None:
        return V(not hit and res.status == 51)
    if len(hit) != 1:
        return V(False)
    # the location that matched first decides upstream and mapping
    cpath, cquery = _split_client_url("gemini://front" + SHAPES[si])
    want_url = ups[want] + _ref_path(cpath, LOCS[picks[want]], strip)
    return V(hit[0][1] == want_url)


def route2(l1: int, l2: int, si: int, shared: bool) -> bool:
    """
    pre: 0 <= l1 < 5 and 0 <= l2 < 5 and 0 <= si < NROUTE
    post: _
    """
    return _route(l1, l2, 0, 2, si, shared, shared)


def route3(l1: int, l2: int, l3: int, si: int, shared: bool) -> bool:
    """
    pre: 0 <= l1 < 5 and 0 <= l2 < 5 and 0 <= l3 < 5 and l1 != l2 and l2 != l3 and l1 != l3
    pre: 0 <= si < NROUTE3
    post: _
    """
    return _route(l1, l2, l3, 3, si, shared, shared)


META = {
    "files": ["src/nauyaca/server/proxy.py", "src/nauyaca/utils/url.py", "src/nauyaca/server/config.py",
              "src/nauyaca/server/router.py", "src/nauyaca/server/location.py"],
    "level": "model_checking",
    "explanation": ("Bounded symbolic execution of the real ProxyHandler._handle_async (client call replaced by a recorder): two "
                    "symbolic path characters over printable ASCII (incl. '@' ':' ';' '%' '/' '.'), a symbolic query character, "
                    "5 upstream forms, 4 prefix forms, strip on/off; the recorded upstream URL must parse to the configured host "
                    "and port and equal an independently written reference mapping of what the client sent."),
    "assumptions": [
        "the client fetch is replaced by a recorder (what GeminiClient does with the URL is C03/C11/C13/C16/C19)",
        "empty query ('?' with nothing after it) vs no query is a grey zone (undecided)",
    ],
    "trusted": ["CrossHair 0.0.110 / z3 5.1", "urllib.parse"],
}
FN = ["ProxyHandler.__init__", "_handle_async", "GeminiRequest.from_line", "parse_url", "Router.route", "_matches",
      "ServerConfig.get_location_router", "LocationConfig.__post_init__"]
OBLIGATIONS = [
    Ob("map1_root", map1_root, quick=600, thorough=2400,
       symbolic="path skeleton /<c><c> with 1 (quick) / 2 (thorough) symbolic characters over printable ASCII incl. '@' ':' ';' '%' '/' '.'; "
                "5 upstream forms, 4 prefix forms, strip flag", functions=FN, stubs=["client.get recorder"]),
    Ob("map1_api_slash", map1_api_slash, quick=600, thorough=2400,
       symbolic="path skeleton /api/<c><c> with 1 (quick) / 2 (thorough) symbolic characters over printable ASCII incl. '@' ':' ';' '%' '/' '.'; "
                "5 upstream forms, 4 prefix forms, strip flag", functions=FN, stubs=["client.get recorder"]),
    Ob("map1_api_glued", map1_api_glued, quick=600, thorough=2400,
       symbolic="path skeleton /api<c><c> with 1 (quick) / 2 (thorough) symbolic characters over printable ASCII incl. '@' ':' ';' '%' '/' '.'; "
                "5 upstream forms, 4 prefix forms, strip flag", functions=FN, stubs=["client.get recorder"]),
    Ob("map1_nested", map1_nested, quick=600, thorough=2400,
       symbolic="path skeleton /a/b/<c><c>/z with 1 (quick) / 2 (thorough) symbolic characters over printable ASCII incl. '@' ':' ';' '%' '/' '.'; "
                "5 upstream forms, 4 prefix forms, strip flag", functions=FN, stubs=["client.get recorder"]),
    Ob("map_query_0", map_query_0, quick=600, thorough=2400,
       symbolic="skeleton /api/x<c>?k=<q>: 1 query character (+1 path character in the thorough tier), upstream/prefix forms, strip flag",
       functions=FN, stubs=["client.get recorder"]),
    Ob("map_query_1", map_query_1, quick=600, thorough=2400,
       symbolic="skeleton (empty path)?<q><c>: 1 query character (+1 path character in the thorough tier), upstream/prefix forms, strip flag",
       functions=FN, stubs=["client.get recorder"]),
    Ob("map_query_2", map_query_2, quick=600, thorough=2400,
       symbolic="skeleton /api?<q>=<c>&u=gemini://evil/: 1 query character (+1 path character in the thorough tier), upstream/prefix forms, strip flag",
       functions=FN, stubs=["client.get recorder"]),
    Ob("map_shapes", map_shapes, quick=400, thorough=1200,
       symbolic="17 concrete path shapes (partial prefix match, dot segments, ;params, doubled slashes, empty path, '@' look-alikes) "
                "x upstream x prefix x strip x query", functions=FN, stubs=["client.get recorder"], note="discrete"),
    Ob("route2", route2, quick=400, thorough=1200,
       symbolic="2 proxy locations with prefixes from 5 forms (overlapping), either distinct upstreams without stripping or one shared upstream with stripping, 9 quick / 17 thorough path shapes", functions=FN,
       stubs=["client.get recorder"], note="discrete"),
    Ob("route3", route3, quick=400, thorough=1200,
       symbolic="3 proxy locations with distinct prefixes with prefixes from 5 forms (overlapping), either distinct upstreams without stripping or one shared upstream with stripping, 5 quick / 17 thorough path shapes", functions=FN,
       stubs=["client.get recorder"], note="discrete"),
]
