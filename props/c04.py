"""C04 - no handler runs for a request the middleware chain refuses"""
import nauyaca.protocol.request  # noqa: F401
from nauyaca.protocol.response import GeminiResponse
from nauyaca.server.handler import FileUploadHandler, StaticFileHandler
from nauyaca.server.middleware import MiddlewareChain

from vf import Ob, V, pick
from vf.clientrun import CERTS, DERS, FPS, SSLObj
from vf.modelfs import FILE, ModelFS
from vf.server import make, wire_response
from vf.stubs import MiniFuture
from vf.symbuf import mk
from vf.tls import StubTLSConn
from vf.tlsserver import feed, make_tls

ALLOW, DENY, RAISE, PEND_ALLOW, PEND_DENY = range(5)


class _Log:
    def __init__(self):
        self.ev = []


class _Comp:
    """scripted middleware component"""

    def __init__(self, idx, kind, log):
        self.idx, self.kind, self.log = idx, kind, log
        self.gate = MiniFuture()
        self.args = None

    async def process_request(self, url, ip, fp=None):
        self.args = (url, ip, fp)
        self.log.ev.append(("start", self.idx))
        k = self.kind
        if k == PEND_ALLOW or k == PEND_DENY:
            await self.gate
        if k == RAISE:
            self.log.ev.append(("raise", self.idx))
            raise RuntimeError("component %d failed" % self.idx)
        if k == DENY or k == PEND_DENY:
            self.log.ev.append(("deny", self.idx))
            return False, "5%d refused by component %d\r\n" % (3 + self.idx, self.idx)
        self.log.ev.append(("allow", self.idx))
        return True, None


class _Handlers:
    def __init__(self, log):
        self.log = log

    def __call__(self, request):
        self.log.ev.append(("handler",))
        return GeminiResponse(20, "text/gemini", "served")

    async def handle_upload(self, request):
        self.log.ev.append(("upload",))
        return GeminiResponse(20, "text/gemini", "stored")


REQS = [b"gemini://h/x\r\n", b"titan://h/f;size=3\r\nabc", b"titan://h/f;size=0\r\n", b"gemini://h/#frag\r\n"]


def _expected(kinds):
    """first component that does not allow decides: ('served') | ('deny', i) | ('raise', i)"""
    for i, k in enumerate(kinds):
        if k == DENY or k == PEND_DENY:
            return ("deny", i)
        if k == RAISE:
            return ("raise", i)
    return ("served",)


def _gate(n, k1, k2, k3, fam, late_read, disconnect):
    log = _Log()
    kinds = [k1, k2, k3][:n]
    comps = [_Comp(i, k, log) for i, k in enumerate(kinds)]
    hs = _Handlers(log)
    p, t, loop = make(hs, MiddlewareChain(comps), hs)
    p.data_received(mk(REQS[fam]))
    loop.run_ready()
    # nothing may have been dispatched while a component is still undecided
    undecided = [c for c in comps if c.kind in (PEND_ALLOW, PEND_DENY) and not c.gate.done() and c.args is not None]
    if undecided and (("handler",) in log.ev or ("upload",) in log.ev):
        return False
    if late_read and not t.closed:
        p.data_received(mk(b"more"))
        loop.run_ready()
        if undecided and (("handler",) in log.ev or ("upload",) in log.ev):
            return False
    if disconnect:
        p.connection_lost(None)
    # now let the pending components decide, in order
    for c in comps:
        if not c.gate.done():
            c.gate.set_result(None)
        loop.run_ready()
    ran = [e for e in log.ev if e[0] in ("handler", "upload")]
    if fam == 3:
        # invalid request: refused with 59 before anything else; no handler, no side effect
        data, closes, late = wire_response(t)
        return not ran and (disconnect or (closes >= 1 and data.segs[0][:2] == b"59"))
    exp = _expected(kinds)
    if len(ran) > 1:
        return False
    if ran:
        # every component returned allow *before* the handler started
        hi = log.ev.index(ran[0])
        allowed = [e[1] for e in log.ev[:hi] if e[0] == "allow"]
        if exp != ("served",) or allowed != list(range(n)):
            return False
        if (ran[0][0] == "upload") != (fam in (1, 2)):
            return False
    elif exp == ("served",) and not disconnect:
        return False                      # admitted by everybody but never served
    if disconnect:
        data, closes, late = wire_response(t)
        return late == 0
    data, closes, late = wire_response(t)
    if late or closes < 1:
        return False
    head = data.segs[0]
    if exp[0] == "deny":
        want = ("5%d refused by component %d\r\n" % (3 + exp[1], exp[1])).encode()
        # components after the first rejecting one are never consulted
        consulted = [e[1] for e in log.ev if e[0] == "start"]
        return bytes(head) == want and consulted == list(range(exp[1] + 1))
    if exp[0] == "raise":
        return head[:3] == b"40 "
    return head[:3] == b"20 "


def chain_twice(a1: int, a2: int, b1: int, b2: int, fam1: int, fam2: int) -> bool:
    """
    pre: 0 <= a1 <= 2 and 0 <= a2 <= 2 and 0 <= b1 <= 2 and 0 <= b2 <= 2
    pre: 0 <= fam1 <= 2 and 0 <= fam2 <= 2
    post: _
    """
    # the server builds ONE chain and consults it for every connection: the second connection is judged by what the
    # components say THEN (they are stateful by design: rate limits, changed lists), never by a remembered verdict
    log = _Log()
    comps = [_Comp(0, ALLOW, log), _Comp(1, ALLOW, log)]
    chain = MiddlewareChain(comps)
    hs = _Handlers(log)
    for kinds, fam in (((a1, a2), fam1), ((b1, b2), fam2)):
        del log.ev[:]
        comps[0].kind, comps[1].kind = kinds
        p, t, loop = make(hs, chain, hs)
        p.data_received(mk(REQS[fam]))
        loop.run_ready()
        ran = [e for e in log.ev if e[0] in ("handler", "upload")]
        exp = _expected(list(kinds))
        data, closes, late = wire_response(t)
        if late or closes < 1 or len(ran) > 1:
            return V(False)
        head = data.segs[0]
        consulted = [e[1] for e in log.ev if e[0] == "start"]
        if exp == ("served",):
            if len(ran) != 1 or head[:3] != b"20 " or consulted != [0, 1]:
                return V(False)
        else:
            if ran or consulted != list(range(exp[1] + 1)):
                return V(False)
            if exp[0] == "deny" and bytes(head) != ("5%d refused by component %d\r\n" % (3 + exp[1], exp[1])).encode():
                return V(False)
            if exp[0] == "raise" and head[:3] != b"40 ":
                return V(False)
    return V(True)


def gate_gemini(n: int, k1: int, k2: int, k3: int, late_read: bool, disconnect: bool) -> bool:
    """
    pre: 1 <= n <= 3 and 0 <= k1 <= 4 and 0 <= k2 <= 4 and 0 <= k3 <= 4
    post: _
    """
    return V(_gate(n, k1, k2, k3, 0, late_read, disconnect))


def gate_titan(n: int, k1: int, k2: int, k3: int, delete: bool, late_read: bool, disconnect: bool) -> bool:
    """
    pre: 1 <= n <= 3 and 0 <= k1 <= 4 and 0 <= k2 <= 4 and 0 <= k3 <= 4
    post: _
    """
    return V(_gate(n, k1, k2, k3, 2 if delete else 1, late_read, disconnect))


def gate_invalid(n: int, k1: int, k2: int) -> bool:
    """
    pre: 1 <= n <= 2 and 0 <= k1 <= 4 and 0 <= k2 <= 4
    post: _
    """
    return V(_gate(n, k1, k2, 0, 3, False, False))


class _ArgSpy:
    def __init__(self):
        self.args = None

    async def process_request(self, url, ip, fp=None):
        self.args = (url, ip, fp)
        return True, None


def args_plain(d: int, ci: int, titan: int, q: int) -> bool:
    """
    pre: 0x30 <= d <= 0x39 and 0 <= ci <= 3 and 0 <= titan <= 2
    pre: 0x61 <= q <= 0x7a
    post: _
    """
    # stdlib backend: the transport's ssl_object hands out the DER certificate
    spy = _ArgSpy()
    hs = _Handlers(_Log())
    ip = "203.0.113." + chr(d)
    sslobj = SSLObj(DERS[ci]) if ci < 3 else SSLObj(None)
    p, t, loop = make(hs, MiddlewareChain([spy]), hs, peer=(ip, 40000), ssl_object=sslobj)
    if titan == 1:
        p.data_received(mk(("titan://h/up" + chr(q) + ";size=1\r\nZ").encode()))
    elif titan == 2:
        p.data_received(mk(("titan://h/up" + chr(q) + ";size=0\r\n").encode()))
    else:
        p.data_received(mk(("gemini://H:1965/a" + chr(q) + "?k\r\n").encode()))
    loop.run_ready()
    if spy.args is None:
        return V(False)
    url, got_ip, fp = spy.args
    want_fp = FPS[ci] if ci < 3 else None
    want_url = ("titan://h/up" + chr(q) + ";size=%d;mime=text/gemini" % (2 - titan)) if titan else ("gemini://h/a" + chr(q) + "?k")
    return V(got_ip == ip and fp == want_fp and url == want_url)


def args_pyopenssl(d: int, ci: int, titan: int) -> bool:
    """
    pre: 0x30 <= d <= 0x39 and 0 <= ci <= 3 and 0 <= titan <= 2
    post: _
    """
    # PyOpenSSL backend: certificate travels through TLSServerProtocol -> TLSTransportWrapper -> _SSLObjectWrapper
    spy = _ArgSpy()
    hs = _Handlers(_Log())
    ip = "2001:db8::" + chr(d)
    conn = StubTLSConn(flights=1, peer_cert=CERTS[ci] if ci < 3 else None)
    outer, tcp, loop, conn, made = make_tls(hs, MiddlewareChain([spy]), hs, conn, peer=(ip, 40000, 0, 0))
    feed(outer, tcp, [("hs",)])
    feed(outer, tcp, [("app", [b"gemini://h/a\r\n", b"titan://h/up;size=1\r\nZ", b"titan://h/up;size=0\r\n"][titan])])
    loop.run_ready()
    if spy.args is None:
        return V(False)
    url, got_ip, fp = spy.args
    return V(got_ip == ip and fp == (FPS[ci] if ci < 3 else None))


def side_effects(k1: int, k2: int, fam: int) -> bool:
    """
    pre: 0 <= k1 <= 4 and 0 <= k2 <= 4 and 0 <= fam <= 2
    post: _
    """
    # real handlers on the model file system: a refused request leaves the tree unread and unmodified
    fs = ModelFS(cwd="/srv")
    fs.mkdirs("/srv/root", "/srv/up", "/tmp")
    fs.add("/srv/root/x", FILE, b"page")
    fs.add("/srv/up/f", FILE, b"old")
    log = _Log()
    comps = [_Comp(0, k1, log), _Comp(1, k2, log)]
    fs.install()
    try:
        sh = StaticFileHandler("/srv/root")
        uh = FileUploadHandler("/srv/up", enable_delete=True)
        before = fs.snapshot()
        fs.reads, fs.mutations = [], []
        p, t, loop = make(sh.handle, MiddlewareChain(comps), uh)
        p.data_received(mk(REQS[fam]))
        loop.run_ready()
        mid_clean = not fs.reads and not fs.mutations
        for c in comps:
            if not c.gate.done():
                c.gate.set_result(None)
            loop.run_ready()
    finally:
        fs.uninstall()
    exp = _expected([k1, k2])
    pending = any(k in (PEND_ALLOW, PEND_DENY) for k in _decisive(k1, k2))
    if pending and not mid_clean:
        return V(False)                   # touched the file system before the chain had decided
    if exp != ("served",):
        return V(not fs.reads and not fs.mutations and fs.snapshot() == before)
    return V(bool(fs.reads) or bool(fs.mutations))


def _decisive(k1, k2):
    """components that are consulted"""
    if k1 in (DENY, RAISE, PEND_DENY):
        return [k1]
    return [k1, k2]


META = {
    "files": ["src/nauyaca/server/protocol.py", "src/nauyaca/server/middleware.py", "src/nauyaca/server/server.py",
              "src/nauyaca/server/tls_protocol.py"],
    "level": "model_checking",
    "explanation": ("Bounded symbolic execution of the real GeminiServerProtocol with the real MiddlewareChain built from 1..3 "
                    "scripted components whose outcome (allow / deny / raise / decide later) is solver-chosen, for Gemini, Titan "
                    "upload, Titan delete and invalid requests, with late reads and disconnects in between; an event log orders "
                    "component decisions against handler invocations. Arguments handed to the chain (peer address, URL, "
                    "certificate fingerprint) are checked on both backends with real certificates."),
    "assumptions": [
        "scripted components stand for rate limiter / access control / certificate auth (whose own decisions are C05, C09, C10)",
        "MiniLoop: a pending component decides only when the harness resolves it",
        "discrete outcome dimensions; the engine's contribution is lazy case splitting and exhaustion",
    ],
    "trusted": ["CrossHair 0.0.110 / z3 5.1"],
}
FN = ["GeminiServerProtocol.data_received", "_handle_gemini_request", "_handle_middleware_result", "_route_request",
      "_handle_titan_url", "_process_titan_upload", "_handle_titan_upload_result", "MiddlewareChain.process_request",
      "get_peer_certificate", "TLSServerProtocol._initialize_inner_protocol", "_SSLObjectWrapper.getpeercert"]
OBLIGATIONS = [
    Ob("gate_gemini", gate_gemini, quick=400, thorough=1200,
       symbolic="1..3 components x {allow, deny, raise, allow later, deny later}, late read, disconnect before the decision",
       functions=FN, stubs=["FakeTransport", "MiniLoop", "scripted components"]),
    Ob("gate_titan", gate_titan, quick=400, thorough=1200,
       symbolic="as gate_gemini for Titan upload / delete", functions=FN, stubs=["FakeTransport", "MiniLoop", "scripted components"]),
    Ob("chain_twice", chain_twice, quick=300, thorough=600,
       symbolic="two connections consulting ONE MiddlewareChain object: outcome of each of 2 components (allow / deny / raise) on the "
                "first and on the second connection, request family of each (gemini / titan upload / titan delete)",
       functions=FN, stubs=["FakeTransport", "MiniLoop", "scripted components"]),
    Ob("gate_invalid", gate_invalid, quick=200, thorough=600,
       symbolic="1..2 components, invalid request line (fragment)", functions=FN, stubs=["FakeTransport", "MiniLoop"]),
    Ob("args_plain", args_plain, quick=300, thorough=900,
       symbolic="last character of the peer address (digit code point), a path character (a-z code point), presented certificate "
                "(EC / Ed25519 / RSA / none), gemini / titan upload / titan delete",
       functions=FN, stubs=["FakeTransport(ssl_object)", "MiniLoop"]),
    Ob("args_pyopenssl", args_pyopenssl, quick=300, thorough=900,
       symbolic="last character of the (IPv6) peer address, presented certificate (3 real / none), gemini / titan upload / titan delete",
       functions=FN, stubs=["StubTLSConn", "FakeTransport", "MiniLoop"]),
    Ob("side_effects", side_effects, quick=400, thorough=1200,
       symbolic="2 components x 5 outcomes, gemini / titan upload / titan delete; real StaticFileHandler and FileUploadHandler on ModelFS",
       functions=FN + ["StaticFileHandler.handle", "FileUploadHandler.handle_upload"], stubs=["ModelFS", "MiniLoop"]),
]
