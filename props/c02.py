"""C02 - static serving never escapes the document root"""
import errno
import os
import shutil
import stat as _stat
import tempfile
from urllib.parse import quote

import nauyaca.protocol.request  # noqa: F401
from nauyaca.protocol.request import GeminiRequest
from nauyaca.protocol.response import GeminiResponse
from nauyaca.server.handler import StaticFileHandler
from nauyaca.utils.url import ParsedURL

import vf.server  # noqa: F401
from vf import Ob, V, pick
from vf.modelfs import ABSENT, DIR, FILE, LINK, ModelFS, materialise

ROOT = "/srv/root"
# kinds of the symbolic entries
K_ABSENT, K_FILE, K_DIR, K_L_INFILE, K_L_INDIR, K_L_OUTFILE, K_L_OUTDIR, K_DANGLING, K_SELF, K_L_SIBLING, K_L_REL = range(11)
NKINDS = 11
TARGETS = {K_L_INFILE: "/srv/root/a.gmi", K_L_INDIR: "/srv/root/d", K_L_OUTFILE: "/srv/sec/SECRET-s",
           K_L_OUTDIR: "/srv/sec", K_DANGLING: "/srv/nowhere", K_L_SIBLING: "/srv/root-x/EVIL-x", K_L_REL: "../sec/SECRET-s"}


class SymNode:
    """node whose kind is a (possibly symbolic) selector; resolved lazily, only when visited"""

    def __init__(self, k, path, content):
        self.k, self.path, self._content = k, path, content
        self._kind = None          # decided once per path, then concrete (saves solver round trips)
        self._target = None

    @property
    def kind(self):
        if self._kind is None:
            k = self.k
            if k == K_ABSENT:
                self._kind = ABSENT
            elif k == K_FILE:
                self._kind = FILE
            elif k == K_DIR:
                self._kind = DIR
            else:
                self._kind = LINK
        return self._kind

    @property
    def target(self):
        if self._target is None:
            k = self.k
            if k == K_SELF:
                self._target = self.path
            else:
                for kk in (K_L_INFILE, K_L_INDIR, K_L_OUTFILE, K_L_OUTDIR, K_DANGLING, K_L_SIBLING, K_L_REL):
                    if k == kk:
                        self._target = TARGETS[kk]
                        break
                else:
                    raise AssertionError("not a link")
        return self._target

    @property
    def content(self):
        return self._content

    @content.setter
    def content(self, v):
        self._content = v


INSIDE = (b"A-inside", b"E-inside", b"I-inside", b"F-inside", b"S-inside", b"G-inside")


def build(k_e, k_i, k_g):
    fs = ModelFS(cwd="/srv")
    fs.mkdirs("/srv/root/d", "/srv/sec/SECRET-sub", "/srv/root-x", "/tmp")
    fs.add("/srv/root/a.gmi", FILE, b"A-inside")
    fs.add("/srv/root/sp ace.gmi", FILE, b"S-inside")
    fs.add("/srv/root/d/f.txt", FILE, b"F-inside")
    fs.nodes["/srv/root/e"] = SymNode(k_e, "/srv/root/e", b"E-inside")
    fs.nodes["/srv/root/d/index.gmi"] = SymNode(k_i, "/srv/root/d/index.gmi", b"I-inside")
    fs.nodes["/srv/root/d/g"] = SymNode(k_g, "/srv/root/d/g", b"G-inside")
    fs.add("/srv/sec/SECRET-s", FILE, b"SECRET-content")
    fs.add("/srv/sec/SECRET-sub/SECRET-t", FILE, b"SECRET-content-2")
    fs.add("/srv/sec/index.gmi", FILE, b"SECRET-index")
    fs.add("/srv/root-x/EVIL-x", FILE, b"EVIL-sibling")
    fs.add("/srv/root-x/index.gmi", FILE, b"EVIL-index")
    fs.add("/srv/SECRET-top", FILE, b"SECRET-content-top")          # a file directly in the root's parent
    return fs


# the first NQ names are the quick-tier alphabet; the thorough tier uses all of them
NAMES = ["e", "d", "index.gmi", "g", "..", "", "sec", "SECRET-s", ".", "root-x", "%2e%2e", "a.gmi",
         "f.txt", "EVIL-x", "nope", "..%2f", "sp%20ace.gmi", "sp ace.gmi", "root", "srv", "SECRET-sub"]
NQ = 9
QUICK = pick(True, False)
NN = pick(NQ, len(NAMES))


CONTENT_TOKENS = ("SECRET-content", "SECRET-index", "EVIL-sibling", "EVIL-index")
NAME_TOKENS = ("SECRET-s", "SECRET-sub", "SECRET-t", "EVIL-x", "SECRET-top")


def _leaks(text, request_path):
    """content of an outside file, or the name of an outside entry that the client did not
    supply itself, shows up in the response"""
    if text is None:
        return False
    if isinstance(text, bytes):
        text = text.decode("utf-8", "replace")
    for tok in CONTENT_TOKENS:
        if tok in text:
            return True
    cleaned = text.replace(request_path, "")
    for seg in request_path.split("/"):
        if seg:
            cleaned = cleaned.replace(seg, "")
    for tok in NAME_TOKENS:
        if tok in cleaned:
            return True
    return False


def _check_response(r, request_path=""):
    if r.status == 20:
        body = r.body.encode("utf-8") if isinstance(r.body, str) else (r.body or b"")
        if _leaks(body, request_path) or _leaks(r.meta, request_path):
            return False
        # content of a regular file inside the root, or a listing
        return body in INSIDE or body.startswith(b"# Index of ")
    return r.body is None and not _leaks(r.meta, request_path) and 10 <= r.status <= 69


def _handle(h, req):
    """handler call as the protocol layer sees it: an exception becomes a 40 response whose meta
    carries the exception text (GeminiServerProtocol._route_request)"""
    try:
        return h.handle(req)
    except Exception as e:  # noqa: BLE001
        return GeminiResponse(status=40, meta="Server error: %s" % (e,))


_HANDLERS = {}


def _handler(listing):
    """StaticFileHandler built once per process by its real constructor over the (fixed) skeleton:
    the document root itself is never symbolic.  Saves ~half of the traced work per path."""
    if listing not in _HANDLERS:
        fs = build(K_ABSENT, K_ABSENT, K_ABSENT)
        fs.install()
        try:
            _HANDLERS[listing] = StaticFileHandler(ROOT, enable_directory_listing=listing)
        finally:
            fs.uninstall()
    return _HANDLERS[listing]


_handler(True)
_handler(False)


def _request(path):
    """request object as from_line builds it for this (concrete) path; the URL parser itself is
    exercised by C02.reach / C08 / C19, here it would only be traced overhead"""
    return GeminiRequest(raw_url="gemini://h" + path,
                         parsed_url=ParsedURL("gemini", "h", 1965, path or "/", "", "", "gemini://h" + (path or "/")))


def _topology(k_e, k_i, k_g, s1, s2, s3, nseg, slash, listing):
    fs = build(k_e, k_i, k_g)
    segs = [NAMES[s1], NAMES[s2], NAMES[s3]][:nseg]
    path = "/" + "/".join(segs) + ("/" if slash else "")
    h = _HANDLERS[True] if listing else _HANDLERS[False]
    fs.install()
    try:
        r = _handle(h, _request(path))
        return _check_response(r, path)
    finally:
        fs.uninstall()


def topology2_0(k_e: int, k_i: int, k_g: int, s1: int, s2: int, slash: bool, listing: bool) -> bool:
    """
    pre: 0 <= k_e < NKINDS and 0 <= k_i < NKINDS and 0 <= k_g < NKINDS
    pre: 0 <= s1 <= 1 and s1 < NN and 0 <= s2 < NN
    pre: (not QUICK) or k_g == 1
    post: _
    """
    return V(_topology(k_e, k_i, k_g, s1, s2, 0, 2, slash, listing))


def topology2_1(k_e: int, k_i: int, k_g: int, s1: int, s2: int, slash: bool, listing: bool) -> bool:
    """
    pre: 0 <= k_e < NKINDS and 0 <= k_i < NKINDS and 0 <= k_g < NKINDS
    pre: 2 <= s1 <= 4 and s1 < NN and 0 <= s2 < NN
    pre: (not QUICK) or k_g == 1
    post: _
    """
    return V(_topology(k_e, k_i, k_g, s1, s2, 0, 2, slash, listing))


def topology2_2(k_e: int, k_i: int, k_g: int, s1: int, s2: int, slash: bool, listing: bool) -> bool:
    """
    pre: 0 <= k_e < NKINDS and 0 <= k_i < NKINDS and 0 <= k_g < NKINDS
    pre: 5 <= s1 <= 8 and s1 < NN and 0 <= s2 < NN
    pre: (not QUICK) or k_g == 1
    post: _
    """
    return V(_topology(k_e, k_i, k_g, s1, s2, 0, 2, slash, listing))


def topology2_3(k_e: int, k_i: int, k_g: int, s1: int, s2: int, slash: bool, listing: bool) -> bool:
    """
    pre: 0 <= k_e < NKINDS and 0 <= k_i < NKINDS and 0 <= k_g < NKINDS
    pre: 9 <= s1 <= 20 and s1 < NN and 0 <= s2 < NN
    post: _
    """
    return V(_topology(k_e, k_i, k_g, s1, s2, 0, 2, slash, listing))


def topology3_e(k_e: int, k_i: int, k_g: int, s2: int, s3: int, listing: bool) -> bool:
    """
    pre: 0 <= k_e < NKINDS and 0 <= k_i < NKINDS and 0 <= k_g < NKINDS
    pre: 0 <= s2 < NN and 0 <= s3 < NN
    pre: (not QUICK) or (k_g == 1 and s3 < 5)
    post: _
    """
    return V(_topology(k_e, k_i, k_g, 0, s2, s3, 3, False, listing))


def topology3_d(k_e: int, k_i: int, k_g: int, s2: int, s3: int, listing: bool) -> bool:
    """
    pre: 0 <= k_e < NKINDS and 0 <= k_i < NKINDS and 0 <= k_g < NKINDS
    pre: 0 <= s2 < NN and 0 <= s3 < NN
    pre: (not QUICK) or (k_g == 1 and s3 < 5)
    post: _
    """
    return V(_topology(k_e, k_i, k_g, 1, s2, s3, 3, False, listing))


def topology3_dotdot(k_e: int, k_i: int, k_g: int, s2: int, s3: int, listing: bool) -> bool:
    """
    pre: 0 <= k_e < NKINDS and 0 <= k_i < NKINDS and 0 <= k_g < NKINDS
    pre: 0 <= s2 < NN and 0 <= s3 < NN
    pre: (not QUICK) or (k_g == 1 and s3 < 5)
    post: _
    """
    return V(_topology(k_e, k_i, k_g, 4, s2, s3, 3, False, listing))


def root_and_single(k_e: int, k_i: int, s1: int, slash: bool, listing: bool, empty: bool) -> bool:
    """
    pre: 0 <= k_e < NKINDS and 0 <= k_i < NKINDS and 0 <= s1 < NN
    post: _
    """
    fs = build(k_e, k_i, K_FILE)
    fs.install()
    try:
        h = StaticFileHandler(ROOT, enable_directory_listing=listing)
        path = "" if empty else "/" + NAMES[s1] + ("/" if slash else "")
        r = _handle(h, GeminiRequest.from_line("gemini://h" + path))
        return V(_check_response(r, path))
    finally:
        fs.uninstall()


# ---- one long-lived handler: an earlier request never changes what a later one may reach ------------
WARM = ["/", "/d/..", "/a.gmi", "/d/", "/..", "", "/e/..", "/nope", "/d/../", "/../sec"]
W2 = ["..", "sec", "SECRET-top", "root-x", "e", "index.gmi", "d", "EVIL-x", "SECRET-s", "%2e%2e", "a.gmi", ""]
NWARM = pick(5, len(WARM))
NW2 = pick(6, len(W2))


def _warm_handler(k_e, k_i, w, s1, s2, nseg, slash, listing):
    # (contract on the partitioned wrappers)
    # the server builds one handler and serves every connection with it: whatever the handler remembers from the
    # first request (caches, memoised checks) must not widen what the second one reaches
    fs = build(k_e, k_i, K_FILE)
    fs.install()
    try:
        h = StaticFileHandler(ROOT, enable_directory_listing=listing)
        r0 = _handle(h, _request(WARM[w]))
        if not _check_response(r0, WARM[w]):
            return False
        segs = [W2[s1], W2[s2]][:nseg]
        path = "/" + "/".join(segs) + ("/" if slash else "")
        r = _handle(h, _request(path))
        return _check_response(r, path)
    finally:
        fs.uninstall()


def warm_handler_listing(k_e: int, k_i: int, w: int, s1: int, s2: int, nseg: int, slash: bool) -> bool:
    """
    pre: 0 <= k_e < NKINDS and 0 <= k_i < NKINDS and 0 <= w < NWARM
    pre: 0 <= s1 < NW2 and 0 <= s2 < NW2 and 1 <= nseg <= 2
    pre: k_i == 1 and (nseg == 1 or s1 < 4)
    pre: (k_e == 1 and not slash) if QUICK else (k_e == 1 or k_e == 5 or k_e == 6 or k_e == 9)
    post: _
    """
    return V(_warm_handler(k_e, k_i, w, s1, s2, nseg, slash, True))


def warm_handler_plain(k_e: int, k_i: int, w: int, s1: int, s2: int, nseg: int, slash: bool) -> bool:
    """
    pre: 0 <= k_e < NKINDS and 0 <= k_i < NKINDS and 0 <= w < NWARM
    pre: 0 <= s1 < NW2 and 0 <= s2 < NW2 and 1 <= nseg <= 2
    pre: k_i == 1 and (nseg == 1 or s1 < 4)
    pre: (k_e == 1 and not slash) if QUICK else (k_e == 1 or k_e == 5 or k_e == 6 or k_e == 9)
    post: _
    """
    return V(_warm_handler(k_e, k_i, w, s1, s2, nseg, slash, False))


# ---- every regular file inside the root is reachable by its own name --------------------------
REACH = ["a.gmi", "sp ace.gmi", "ü.gmi", "q?x.gmi", "h#x.gmi", "pct%41.gmi", "semi;colon.gmi", "plus+and&.gmi", "d/f.txt",
         "d/sub dir/deep.gmi", "..hidden", "a..b", "trail.", "~tilde", "quo'te", "star*"]


def reach(ni: int, form: int, listing: bool) -> bool:
    """
    pre: 0 <= ni < len(REACH) and 0 <= form <= 1
    post: _
    """
    name = REACH[ni]
    if form == 0 and any(c in name for c in "%?#"):
        return True          # these characters cannot be written literally in a URL path
    fs = build(K_ABSENT, K_ABSENT, K_ABSENT)
    fs.mkdirs("/srv/root/d/sub dir")
    content = ("content of " + name).encode("utf-8")
    fs.add("/srv/root/" + name, FILE, content)
    fs.install()
    try:
        h = StaticFileHandler(ROOT, enable_directory_listing=listing)
        path = "/" + (name if form == 0 else quote(name, safe="/"))
        # the request line as a standards-following client sends it (form 1) or typed literally (form 0)
        r = h.handle(GeminiRequest.from_line("gemini://h" + path))
        if r.status != 20:
            return V(False)
        body = r.body.encode("utf-8") if isinstance(r.body, str) else r.body
        return V(body == content)
    finally:
        fs.uninstall()


# ---- containment test itself ---------------------------------------------------------------------
# only what the handler can pass to its containment helper: resolved paths (no dot segments, no doubled slashes);
# the helper analysed on inputs no caller produces would be an under-constrained alarm
TAILS = ["", "/x", "-x", "x", "/", "/x-x", "x/x", "-x/root"]


def contain_lemma(t1: int, t2: int, ri: int) -> bool:
    """
    pre: 0 <= t1 < len(TAILS) and 0 <= t2 < len(TAILS) and 0 <= ri <= 1
    post: _
    """
    from pathlib import Path
    fs = build(K_ABSENT, K_ABSENT, K_ABSENT)
    fs.install()
    try:
        root = [ROOT, "/srv/root/d"][ri]
        h = StaticFileHandler(root)
        p = root + TAILS[t1] + TAILS[t2]
        helper = getattr(h, "_is_safe_path", None)
        if helper is None:
            return V(True)       # auxiliary lemma about a private helper: nothing to state once it is gone (topology* decide)
        got = helper(Path(p))
        # oracle: lexical component lists (Path() collapses '//' and '/./' but keeps '..')
        pc = [c for c in p.split("/") if c not in ("", ".")]
        rc = [c for c in root.split("/") if c]
        want = pc[:len(rc)] == rc
        return V(got == want)
    finally:
        fs.uninstall()


# ---- translation validation of the model against the kernel --------------------------------------
def modelfs_valid():
    """ModelFS vs the real kernel on materialised copies of the skeleton: stat / lstat / readlink /
    realpath / listdir must agree (errno class and result) for every 1- and 2-segment query."""
    import builtins
    kinds = list(range(NKINDS))
    n = 0
    bad = []
    combos = [(a, b, K_FILE) for a in kinds for b in (K_FILE, K_L_OUTFILE, K_L_INDIR, K_SELF, K_ABSENT)] + \
             [(K_DIR, K_L_REL, c) for c in kinds]
    qnames = ["a.gmi", "e", "d", "index.gmi", "g", ".", "..", "sec", "SECRET-s", "nope", "root-x"]
    for (ke, ki, kg) in combos:
        fs = build(ke, ki, kg)
        tmp = tempfile.mkdtemp(prefix="vf-fs-")
        try:
            materialise(fs.snapshot(), tmp)
            for a in qnames:
                for b in [None] + qnames:
                    rel = "/srv/root/" + a + ("/" + b if b is not None else "")
                    for op in ("stat", "lstat", "readlink", "listdir", "realpath"):
                        n += 1
                        m = _probe(lambda: _model_op(fs, op, rel), tmp=None)
                        k = _probe(lambda: _kernel_op(op, tmp + rel), tmp=tmp)
                        if m != k:
                            bad.append(((ke, ki, kg), op, rel, m, k))
        finally:
            shutil.rmtree(tmp, ignore_errors=True)
    return {"state": "DIFF", "verdict": "confirmed" if not bad else "harness-error", "queries": n, "paths": n,
            "message": "" if not bad else "ModelFS disagrees with the kernel: %r" % (bad[:3],),
            "samples": [{"topologies": len(combos), "queries": n}]}


def _probe(fn, tmp):
    try:
        r = fn()
    except OSError as e:
        return ("err", errno.errorcode.get(e.errno, e.errno))
    if isinstance(r, str) and tmp:
        r = r[len(tmp):] if r.startswith(tmp) else r
        r = r or "/"
    return ("ok", r)


def _kind_of(mode):
    return "d" if _stat.S_ISDIR(mode) else "f" if _stat.S_ISREG(mode) else "l"


def _model_op(fs, op, p):
    if op == "stat":
        return _kind_of(fs.stat(p).st_mode)
    if op == "lstat":
        return _kind_of(fs.lstat(p).st_mode)
    if op == "readlink":
        t = fs.readlink(p)
        return t
    if op == "listdir":
        return sorted(fs.listdir(p))
    fs.install()
    try:
        import posixpath
        return posixpath.realpath(p)
    finally:
        fs.uninstall()


def _kernel_op(op, p):
    if op == "stat":
        return _kind_of(os.stat(p).st_mode)
    if op == "lstat":
        return _kind_of(os.lstat(p).st_mode)
    if op == "readlink":
        t = os.readlink(p)
        # absolute targets were re-rooted when the tree was materialised
        i = t.find("/srv/")
        return t[i:] if t.startswith("/") and i >= 0 else t
    if op == "listdir":
        return sorted(os.listdir(p))
    return os.path.realpath(p)



META = {
    "files": ["src/nauyaca/server/handler.py", "src/nauyaca/content/gemtext.py", "src/nauyaca/utils/url.py",
              "src/nauyaca/protocol/request.py"],
    "level": "model_checking",
    "explanation": ("Bounded symbolic execution of the real StaticFileHandler.handle (+ pathlib / posixpath, which are pure "
                    "Python) over a model file system whose node kinds are solver variables: three entries of the document "
                    "root each range over 11 kinds (absent, file, directory, links to inside/outside files and directories, "
                    "dangling, self-referential, sibling, relative), the request path is built from up to three segments "
                    "chosen by symbolic index from 21 names (incl. '.', '..', empty, outside names, pct-encoded dots)."),
    "assumptions": [
        "kernel path resolution = ModelFS (validated against the real kernel on materialised trees in every run: modelfs_valid)",
        "paths are concrete strings: topology and segment choice are the symbolic dimensions (pathlib on symbolic characters "
        "is beyond the solver budget); these are discrete dimensions: the engine's contribution is lazy case splitting and exhaustion",
        "hard links, concurrent mutation of the tree and Windows are outside",
    ],
    "trusted": ["CrossHair 0.0.110 / z3 5.1", "pathlib / posixpath executed for real"],
}

FN = ["StaticFileHandler.__init__", "handle", "_is_safe_path", "_get_mime_type", "generate_directory_listing",
      "GeminiRequest.from_line", "parse_url", "pathlib.Path.resolve/is_dir/is_file/exists/stat/read_text/iterdir"]
OBLIGATIONS = [
    Ob("topology2_0", topology2_0, quick=1000, thorough=3000,
       symbolic="kinds of 3 tree entries (11 each; quick tier: third entry fixed to a regular file), first segment in {e | d}, second segment over the tier's name alphabet "
                "(9 quick / 21 thorough), trailing slash, listing flag",
       functions=FN, stubs=["ModelFS"]),
    Ob("topology2_1", topology2_1, quick=1000, thorough=3000,
       symbolic="kinds of 3 tree entries (11 each; quick tier: third entry fixed to a regular file), first segment in {index.gmi | g | ..}, second segment over the tier's name alphabet "
                "(9 quick / 21 thorough), trailing slash, listing flag",
       functions=FN, stubs=["ModelFS"]),
    Ob("topology2_2", topology2_2, quick=1000, thorough=3000,
       symbolic="kinds of 3 tree entries (11 each; quick tier: third entry fixed to a regular file), first segment in {'' | sec | SECRET-s | .}, second segment over the tier's name alphabet "
                "(9 quick / 21 thorough), trailing slash, listing flag",
       functions=FN, stubs=["ModelFS"]),
    Ob("topology2_3", topology2_3, quick=1000, thorough=3000, tiers=("thorough",),
       symbolic="kinds of 3 tree entries (11 each; quick tier: third entry fixed to a regular file), first segment in {root-x ... (remaining names)}, second segment over the tier's name alphabet "
                "(9 quick / 21 thorough), trailing slash, listing flag",
       functions=FN, stubs=["ModelFS"]),
    Ob("topology3_e", topology3_e, quick=1000, thorough=3000,
       symbolic="kinds of 3 tree entries, three segments: first fixed (e), second and third over the tier's name alphabet, listing flag",
       functions=FN, stubs=["ModelFS"]),
    Ob("topology3_d", topology3_d, quick=1000, thorough=3000,
       symbolic="kinds of 3 tree entries, three segments: first fixed (d), second and third over the tier's name alphabet, listing flag",
       functions=FN, stubs=["ModelFS"]),
    Ob("topology3_dotdot", topology3_dotdot, quick=1000, thorough=3000,
       symbolic="kinds of 3 tree entries, three segments: first fixed (dotdot), second and third over the tier's name alphabet, listing flag",
       functions=FN, stubs=["ModelFS"]),
    Ob("root_and_single", root_and_single, quick=300, thorough=900,
       symbolic="kinds of 2 entries, empty path / one segment, trailing slash, listing flag", functions=FN, stubs=["ModelFS"]),
    Ob("warm_handler_listing", warm_handler_listing, quick=1000, thorough=3000,
       symbolic="a first request out of 5 (quick) / 10 (root itself, '/d/..', a file, a listing, a refused escape, ...), then a second "
                "request of 1-2 segments over 6 (quick) / 12 names incl. '..', siblings and a file directly in the root's parent -- both "
                "served by the same handler object (two-segment paths start with one of '..', 'sec', 'SECRET-top', 'root-x'); thorough: also 4 kinds of the symbolic entry and the trailing slash",
       functions=FN, stubs=["ModelFS"]),
    Ob("warm_handler_plain", warm_handler_plain, quick=1000, thorough=3000,
       symbolic="a first request out of 5 (quick) / 10 (root itself, '/d/..', a file, a listing, a refused escape, ...), then a second "
                "request of 1-2 segments over 6 (quick) / 12 names incl. '..', siblings and a file directly in the root's parent -- both "
                "served by the same handler object (two-segment paths start with one of '..', 'sec', 'SECRET-top', 'root-x'); thorough: also 4 kinds of the symbolic entry and the trailing slash",
       functions=FN, stubs=["ModelFS"]),
    Ob("reach", reach, quick=200, thorough=600,
       symbolic="file name index (16 names with space, non-ASCII, '?', '#', '%', ';', nested directory), literal or pct-encoded spelling",
       functions=FN, stubs=["ModelFS"], note="discrete"),
    Ob("contain_lemma", contain_lemma, quick=400, thorough=300,
       symbolic="two tail pieces (8 each, dot-segment free) appended to the root path, 2 roots", functions=["StaticFileHandler._is_safe_path"],
       stubs=["ModelFS"], note="discrete"),
    Ob("modelfs_valid", modelfs_valid, kind="diff", quick=300, thorough=600, twin=False,
       symbolic="(translation validation of the ModelFS stub against the kernel; not a claim about nauyaca)",
       functions=["ModelFS.stat/lstat/readlink/listdir", "posixpath.realpath over ModelFS"]),
]
