"""C19 - URL normalisation preserves meaning and is idempotent"""
import nauyaca.protocol.request  # noqa: F401
from nauyaca.protocol.request import GeminiRequest
from nauyaca.utils.url import normalize_url, parse_url

import vf.server  # noqa: F401  (installs the SymValueError shim)
from props.c08 import DIGS, HEXS, is_pchar, is_qchar, is_reg
from vf import Ob, V, pick

REGS = "aZ9-_~!;"
HX = "09afAF"
SCHEMES = ["gemini://", "GEMINI://", "Gemini://"]
PORTS = ["", ":1965", ":", ":7", ":0", ":65535", ":01965"]
PORT_VALUE = [1965, 1965, 1965, 7, 0, 65535, 1965]      # what the caller asked for, known by construction
V6 = ["[2001:db8::%s]", "[::%s]", "[fe80::%s%%25eth0]", "[::ffff:192.0.2.%s]", "[FE80::%s%%25Eth0]"]


def _same(u, port=None, host=None):
    """The property for one accepted URL u (``port`` / ``host``: what the caller asked for, where the
    harness knows it by construction -- comparing parse(u) with parse(normalize(u)) alone would let a
    parser that is wrong in the same way on both sides pass)."""
    p = parse_url(u)
    if port is not None and p.port != port:
        return False
    if host is not None and p.hostname != host:
        return False
    n = p.normalized
    q = parse_url(n)                      # normal form must itself be accepted
    if not (q.hostname == p.hostname and q.port == p.port and q.path == p.path and q.query == p.query):
        return False
    if normalize_url(n) != n:             # idempotent
        return False
    r = GeminiRequest.from_line(n)        # what the server makes of the line the client sends
    return r.hostname == p.hostname and r.port == p.port and r.path == p.path and r.query == p.query


def norm_host(sk: int, pk: int, a: int, shape: int) -> bool:
    """
    pre: 0 <= sk < 3 and 0 <= pk < 7 and 0 <= shape < 3
    pre: 0 <= a < len(REGS)
    pre: shape == 2 or a == 0
    post: _
    """
    # the host is lower-cased by urllib and re-parsed: str.lower() of a symbolic character
    # makes every later string query slow (measured: second parse not confirmed in 120 s),
    # so the host character is a discrete dimension chosen by symbolic index
    host = "Ex" + REGS[a] + "mple.ORG"
    u = SCHEMES[sk] + host + PORTS[pk] + ["", "/", "/p?q"][shape]
    try:
        parse_url(u)
    except ValueError:
        return True                       # not an accepted URL: outside the property
    return V(_same(u, PORT_VALUE[pk], host.lower()))


TAILS2 = [("/Docs/A", "/Docs/A", ""), ("/docs/a", "/docs/a", ""), ("/docs/%41", "/docs/%41", ""), ("/docs/%61", "/docs/%61", ""),
          ("/docs/a/", "/docs/a/", ""), ("/docs/a?X=1", "/docs/a", "X=1"), ("/docs/a?x=1", "/docs/a", "x=1"), ("", "/", ""),
          ("/docs/a?", "/docs/a", ""), ("/docs/A;p", "/docs/A;p", "")]
HOSTS2 = [("Example.org", "example.org"), ("example.org", "example.org"), ("example.org.", "example.org."), ("EXAMPLE.com", "example.com")]
import nauyaca.protocol.request as _rqmod  # noqa: E402
import nauyaca.utils.url as _urlmod  # noqa: E402
from vf import ModuleState  # noqa: E402

_STATES = [ModuleState(_urlmod), ModuleState(_rqmod)]
NH2 = pick(2, len(HOSTS2))
NP2 = pick(2, 4)


def memo(t1: int, h2: int, t2: int, p2: int) -> bool:
    """
    pre: 0 <= t1 < len(TAILS2) and 0 <= t2 < len(TAILS2) and 0 <= h2 < NH2 and 0 <= p2 < NP2
    post: _
    """
    # these functions are pure: handling one URL must leave no trace in how the next, similar-looking one is handled
    # (a memo keyed by anything coarser than the exact text -- lower-cased, without the port, unquoted -- would)
    for st in _STATES:
        st.restore()                       # module-level containers back to their import-time content
    u1 = "gemini://Example.org" + TAILS2[t1][0]
    u2 = "gemini://" + HOSTS2[h2][0] + PORTS[p2] + TAILS2[t2][0]
    for f in (parse_url, normalize_url, GeminiRequest.from_line):
        try:
            f(u1)
        except ValueError:
            pass
    try:
        p = parse_url(u2)
    except ValueError:
        return True
    if p.hostname != HOSTS2[h2][1] or p.port != PORT_VALUE[p2] or p.path != TAILS2[t2][1] or p.query != TAILS2[t2][2]:
        return V(False)
    return V(_same(u2, PORT_VALUE[p2], HOSTS2[h2][1]))


def norm_pcthost(sk: int, pk: int, hx: int, shape: int) -> bool:
    """
    pre: 0 <= sk < 3 and 0 <= pk < 7 and 0 <= hx < 6 and 0 <= shape < 2
    post: _
    """
    # reg-name with a pct-encoded octet followed by capitals (urllib only lower-cases up to the '%')
    host = ["a%2" + HX[hx] + "b.Example.COM", "X%4" + HX[hx] + "Y"][shape]
    u = SCHEMES[sk] + host + PORTS[pk] + "/p"
    try:
        parse_url(u)
    except ValueError:
        return True
    return V(_same(u))


def norm_path(pk: int, c: int, shape: int) -> bool:
    """
    pre: 0 <= pk < 7 and 0 <= shape < 5
    pre: is_pchar(c)
    post: _
    """
    ch = chr(c)
    tail = ["/" + ch, "/a;" + ch + "=1/b", "/%41" + ch + "?k=" + ch, "?" + ch, "/" + ch + "/"][shape]
    u = "gemini://h" + PORTS[pk] + tail
    try:
        parse_url(u)
    except ValueError:
        return True
    return V(_same(u, PORT_VALUE[pk], "h"))


def norm_path2(pk: int, c: int, d: int, shape: int) -> bool:
    """
    pre: 0 <= pk < 7 and 0 <= shape < 3
    pre: is_pchar(c) and is_pchar(d)
    post: _
    """
    c, d = chr(c), chr(d)
    tail = ["/" + c + d, "/a;" + c + "/" + d, "/" + c + "?" + d + "=" + c][shape]
    u = "gemini://h" + PORTS[pk] + tail
    try:
        parse_url(u)
    except ValueError:
        return True
    return V(_same(u))


def norm_query(a: int, b: int, shape: int) -> bool:
    """
    pre: 0 <= shape < 4
    pre: is_qchar(a) and is_qchar(b)
    post: _
    """
    q = chr(a) + chr(b)
    u = ["gemini://h?" + q, "gemini://h/?" + q + "&x", "gemini://h:1965/p/?" + q, "gemini://h/p;" + q + "?" + q][shape]
    try:
        parse_url(u)
    except ValueError:
        return True
    return V(_same(u))


def norm_v6(vk: int, d: int, pk: int, shape: int) -> bool:
    """
    pre: 0 <= vk < 5 and 0 <= d < 6 and 0 <= pk < 7 and 0 <= shape < 3
    pre: pk <= 4 or shape == 0
    post: _
    """
    digit = HX[d]
    if vk == 3:
        digit = "019255"[d]
    host = V6[vk] % digit
    u = "gemini://" + host + PORTS[pk] + ["", "/", "/p?q"][shape]
    try:
        parse_url(u)
    except ValueError:
        return True
    return V(_same(u, PORT_VALUE[pk]))


def accepts_v6(vk: int, d: int) -> bool:
    """
    pre: 0 <= vk < 2 and 0 <= d < 22
    post: _
    """
    # reachability guard for norm_v6: bracketed literals ARE accepted URLs
    u = "gemini://" + (V6[vk] % HEXS[d]) + "/"
    try:
        p = parse_url(u)
    except ValueError:
        return V(False)
    return V(p.hostname == (V6[vk] % HEXS[d])[1:-1].lower())


META = {
    "files": ["src/nauyaca/utils/url.py", "src/nauyaca/protocol/request.py"],
    "level": "model_checking",
    "explanation": ("Bounded symbolic execution of the real parse_url / normalize_url / GeminiRequest.from_line over RFC 3986 "
                    "skeletons whose leaf characters are symbolic code points (any reg-name / pchar / query character)."),
    "assumptions": [
        "leaf characters: one symbolic code point per position, <= 2 positions per obligation; IPv6 hex digits and port "
        "forms are discrete dimensions chosen by symbolic index (ipaddress / int() run on concrete text)",
        "TAB/CR/LF inside URLs (deleted by urllib.parse) are outside the claim",
    ],
    "trusted": ["CrossHair 0.0.110 / z3 5.1", "urllib.parse and ipaddress executed for real"],
}

OBLIGATIONS = [
    Ob("norm_host", norm_host, quick=240, thorough=900,
       symbolic="host character: symbolic index into 8 reg-name characters (a Z 9 - _ ~ ! ;) (upper/lower/digit/unreserved/sub-delims)", note="discrete: str.lower() on a symbolic character is beyond the solver budget",
       enum="3 scheme spellings x 7 port forms (absent, :1965, empty, :7, :0, :65535, :01965) x 3 tails",
       functions=["parse_url", "normalize_url", "GeminiRequest.from_line", "validate_url"]),
    Ob("memo", memo, quick=300, thorough=600,
       symbolic="two URLs handled one after the other by parse_url + normalize_url + from_line: tail of the first (10: case, pct-case, "
                "trailing slash, query case, empty query, params); host spelling (2 | 4), tail (10) and port spelling (2 | 4) of the second, "
                "which is compared with ground truth known by construction", functions=["parse_url", "normalize_url", "GeminiRequest.from_line"],
       note="discrete: concrete texts, the engine forks on the indices"),
    Ob("norm_pcthost", norm_pcthost, quick=240, thorough=900,
       symbolic="host with a pct-encoded octet (hex digit by symbolic index) followed by upper-case letters; 3 scheme spellings x 7 port forms",
       functions=["parse_url", "normalize_url", "GeminiRequest.from_line"], note="discrete dimensions"),
    Ob("norm_path", norm_path, quick=240, thorough=900,
       symbolic="path/query character (any pchar code point incl. ';' ':' '@' and sub-delims)",
       enum="3 port forms x 5 path/query shapes incl. ;params and pct-encoding",
       functions=["parse_url", "normalize_url", "GeminiRequest.from_line"]),
    Ob("norm_path2", norm_path2, quick=600, thorough=1500, tiers=("thorough",),
       symbolic="2 path/query characters (any pchar code point), 7 port forms, 3 shapes", functions=["parse_url", "normalize_url", "GeminiRequest.from_line"]),
    Ob("norm_query", norm_query, quick=180, thorough=900,
       symbolic="2 query characters (pchar | / | ?)", enum="4 shapes",
       functions=["parse_url", "normalize_url", "GeminiRequest.from_line"]),
    Ob("norm_v6", norm_v6, quick=240, thorough=900,
       symbolic="hex digit index 0..5 (0 9 a f A F), literal form 0..4 (incl. lower/upper-case zone id and v4-mapped), port form 0..3, shape 0..2",
       functions=["parse_url", "normalize_url", "GeminiRequest.from_line"],
       note="discrete dimensions: the engine forks per index value"),
    Ob("accepts_v6", accepts_v6, quick=120, thorough=300,
       symbolic="hex digit index, literal form", functions=["parse_url"],
       note="shows bracketed IPv6 literals are inside the set of accepted URLs (norm_v6 is not vacuous)"),
]
