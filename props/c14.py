"""C14 - Titan uploads change only the authorised target, exactly as sent"""
import errno

import nauyaca.protocol.request  # noqa: F401
from nauyaca.protocol.request import TitanRequest
from nauyaca.server.handler import FileUploadHandler

import vf.server  # noqa: F401
from props.c02 import SymNode
from vf import Ob, V, pick
from vf.modelfs import ABSENT, DIR, FILE, LINK, ModelFS
from vf.server import make, wire_response
from vf.stubs import drive
from vf.symbuf import Fill, SymBuf, mk

UP = "/srv/up"
# kinds of the two symbolic entries
U_ABSENT, U_FILE, U_DIR, U_L_OUTDIR, U_L_OUTFILE, U_L_SIB, U_L_SIBDIR, U_L_INFILE, U_DANGLING = range(9)
NK = pick(7, 9)            # quick tier: without the inside-file link and the dangling link
UT = {U_L_OUTDIR: "/srv/out", U_L_OUTFILE: "/srv/out/victim", U_L_INFILE: "/srv/up/exist.gmi", U_L_SIB: "/srv/up-x/sib", U_L_SIBDIR: "/srv/up-x",
      U_DANGLING: "/srv/out/nothing"}


class UNode(SymNode):
    @property
    def kind(self):
        if self._kind is None:
            k = self.k
            self._kind = ABSENT if k == U_ABSENT else FILE if k == U_FILE else DIR if k == U_DIR else LINK
        return self._kind

    @property
    def target(self):
        if self._target is None:
            k = self.k
            for kk in (U_L_OUTDIR, U_L_OUTFILE, U_L_INFILE, U_L_SIB, U_L_SIBDIR, U_DANGLING):
                if k == kk:
                    self._target = UT[kk]
                    break
            else:
                raise AssertionError("not a link")
        return self._target


def build(k1, k2):
    fs = ModelFS(cwd="/srv")
    fs.mkdirs("/srv/up/sub", "/srv/up-x", "/srv/out", "/tmp")
    fs.add("/srv/up/exist.gmi", FILE, b"OLD-exist")
    fs.add("/srv/up/sub/inner.gmi", FILE, b"OLD-inner")
    fs.nodes["/srv/up/n1"] = UNode(k1, "/srv/up/n1", b"OLD-n1")
    fs.nodes["/srv/up/sub/n2"] = UNode(k2, "/srv/up/sub/n2", b"OLD-n2")
    fs.add("/srv/up-x/sib", FILE, b"OLD-sib")
    fs.add("/srv/out/victim", FILE, b"OLD-victim")
    return fs


SEGS = ["exist.gmi", "new.gmi", "sub", "inner.gmi", "n1", "n2", "victim", "..", "", "up-x", "sib", ".", "%2e%2e", "newdir"]
NS = pick(8, len(SEGS))
NS3 = pick(5, len(SEGS))
FULL = pick(False, True)
SIZES = [0, 1, 5, 1000]
MAXES = [4, 1000]
TOKENS = [None, "right", "wrong"]
MIMES = ["text/gemini", "application/x-evil"]


def _snap(fs):
    out = {}
    for p, (kind, val) in fs.snapshot().items():
        if kind == "f" and isinstance(val, SymBuf):
            val = ("symbuf", val)
        out[p] = (kind, val)
    return out


def _same_entry(a, b):
    if a[0] != b[0]:
        return False
    va, vb = a[1], b[1]
    if isinstance(va, tuple) or isinstance(vb, tuple):
        if not (isinstance(va, tuple) and isinstance(vb, tuple)):
            x = va[1] if isinstance(va, tuple) else SymBuf([va])
            y = vb[1] if isinstance(vb, tuple) else SymBuf([vb])
            return x.same_as(y)
        return va[1].same_as(vb[1])
    return va == vb


def _diff(before, after):
    """[(path, before|None, after|None)] for every path whose entry differs"""
    out = []
    for p in set(before) | set(after):
        a, b = before.get(p), after.get(p)
        if a is None or b is None:
            out.append((p, a, b))
        elif not _same_entry(a, b):
            out.append((p, a, b))
    return out


def _judge(fs, before, status, size, content, authorised, path_txt):
    """the property over the before/after trees"""
    after = _snap(fs)
    d = _diff(before, after)
    # newly created (empty) directories on the way to a new target are part of creating the file
    files = [x for x in d if not (x[1] is None and x[2] is not None and x[2][0] == "d")]
    for p, a, b in d:
        if not (p == UP or p.startswith(UP + "/")):
            return False                   # something outside the upload directory changed
    ok2x = 20 <= status <= 29
    if not ok2x:
        return len(files) == 0             # refused or failed: nothing may have changed
    if not authorised:
        return False                       # success although token / size / type / delete policy says no
    if len(files) != 1:
        return False                       # exactly one file is created, replaced or deleted
    p, a, b = files[0]
    if a is not None and a[0] != "f":
        return False                       # only regular files are replaced or deleted
    if size == 0:
        return b is None and a is not None
    if b is None or b[0] != "f":
        return False
    got = b[1][1].concrete() if isinstance(b[1], tuple) else bytes(b[1])
    return got == b"a" * size          # sizes are concrete here: exactly the declared number of content bytes


def _upload(k1, k2, s1, s2, s3, nseg, si, mi, ti, has_auth, mime_i, restrict, delete_on, fail_at, fail_kind, enospc):
    segs = [SEGS[s1], SEGS[s2], SEGS[s3]][:nseg]
    return _upload_path(k1, k2, "/" + "/".join(segs), si, mi, ti, has_auth, mime_i, restrict, delete_on, fail_at, fail_kind, enospc)


def _upload_path(k1, k2, path, si, mi, ti, has_auth, mime_i, restrict, delete_on, fail_at, fail_kind, enospc):
    fs = build(k1, k2)
    size = SIZES[si]
    line = "titan://h" + path + ";size=%d;mime=%s" % (size, MIMES[mime_i])
    if TOKENS[ti] is not None:
        line += ";token=" + TOKENS[ti]
    try:
        req = TitanRequest.from_line(line)
    except ValueError:
        return True                        # not a valid Titan request line: never reaches the handler (C08)
    content = mk(Fill(size))
    req.content = content
    fs.install()
    try:
        h = FileUploadHandler(UP, max_size=MAXES[mi], allowed_types=[MIMES[0]] if restrict else None,
                              auth_tokens={"right"} if has_auth else None, enable_delete=delete_on)
        before = _snap(fs)
        fs.n_mut = 0
        fs.fail_at = fail_at
        fs.fail_errno = [errno.EIO, errno.EACCES, errno.ENOSPC][fail_kind]
        fs.enospc_after = enospc if fail_kind == 2 else -1
        resp, exc = drive(h.handle_upload(req))
        status = 40 if exc is not None else resp.status      # the protocol turns an exception into 40
    finally:
        fs.uninstall()
    authorised = ((not has_auth) or TOKENS[ti] == "right") and size <= MAXES[mi] and \
                 ((not restrict) or mime_i == 0) and (size > 0 or delete_on)
    faulted = fs.fault_raised
    if faulted and 20 <= status <= 29:
        return False                       # storing failed part-way but success was reported
    return _judge(fs, before, status, size, content, authorised, path)


WARMUP = ["/new.gmi", "/exist.gmi", "/sub/inner.gmi", "/sub/../w.gmi", "/../up-x/sib", "/n1"]
W2 = ["..", "up-x", "sib", "victim", "exist.gmi", "sub", "n1", "new.gmi", "%2e%2e", "out"]
NWU = pick(4, len(WARMUP))
NW2 = pick(6, len(W2))


def _one(fs, h, path, size):
    """one upload (size > 0) or delete (size 0) of ``path`` through handler ``h``; -> property verdict for this step"""
    line = "titan://h" + path + ";size=%d;mime=text/gemini" % size
    try:
        req = TitanRequest.from_line(line)
    except ValueError:
        return True
    content = mk(Fill(size))
    req.content = content
    before = _snap(fs)
    resp, exc = drive(h.handle_upload(req))
    status = 40 if exc is not None else resp.status
    return _judge(fs, before, status, size, content, True, path)


def warm_upload(k1: int, w: int, wsize: int, s1: int, s2: int, nseg: int, si: int) -> bool:
    """
    pre: 0 <= k1 < NK and 0 <= w < NWU and 0 <= s1 < NW2 and 0 <= s2 < NW2 and 1 <= nseg <= 2
    pre: (wsize == 0 or wsize == 2) and (si == 0 or si == 1)
    pre: wsize == 2 and (FULL or k1 == 1) and (nseg == 1 or s1 < 3)
    post: _
    """
    # (the second upload carries 1 byte, the first 5: a replaced file always differs from what was there)
    # the server serves every connection with ONE upload handler: whatever it remembers from an earlier upload or delete
    # (memoised containment checks, cached directories) must not widen what a later one may touch
    fs = build(k1, U_FILE)
    fs.install()
    try:
        h = FileUploadHandler(UP, max_size=1000, allowed_types=None, auth_tokens=None, enable_delete=True)
        if not _one(fs, h, WARMUP[w], SIZES[wsize]):
            return V(False)
        segs = [W2[s1], W2[s2]][:nseg]
        return V(_one(fs, h, "/" + "/".join(segs), SIZES[si]))
    finally:
        fs.uninstall()


def policy(si: int, mi: int, ti: int, has_auth: bool, mime_i: int, restrict: bool, delete_on: bool, s1: int) -> bool:
    """
    pre: 0 <= si < 4 and 0 <= mi < 2 and 0 <= ti < 3 and 0 <= mime_i < 2
    pre: 0 <= s1 <= 1
    post: _
    """
    # all switches of the check order (token, size, media type, delete) against an existing and a new target
    return V(_upload(U_FILE, U_FILE, s1, 0, 0, 1, si, mi, ti, has_auth, mime_i, restrict, delete_on, 0, 0, 0))


def effect1(k1: int, k2: int, s1: int, si: int, delete_on: bool) -> bool:
    """
    pre: 0 <= k1 < NK and 0 <= k2 < NK and 0 <= s1 < NS
    pre: si == 0 or si == 2
    post: _
    """
    return V(_upload(k1, k2, s1, 0, 0, 1, si, 1, 0, False, 0, False, delete_on, 0, 0, 0))


def _effect2(k1, k2, s1, s2, si):
    return V(_upload(k1, k2, s1, s2, 0, 2, si, 1, 0, False, 0, False, True, 0, 0, 0))


def effect2_a(k1: int, k2: int, s1: int, s2: int, si: int) -> bool:
    """
    pre: 0 <= k1 < NK and 0 <= k2 < NK and 0 <= s1 <= 3 and 0 <= s2 < NS
    pre: si == 2 or (si == 0 and FULL)
    post: _
    """
    return _effect2(k1, k2, s1, s2, si)


def effect2_b(k1: int, k2: int, s1: int, s2: int, si: int) -> bool:
    """
    pre: 0 <= k1 < NK and 0 <= k2 < NK and 4 <= s1 <= 6 and 0 <= s2 < NS
    pre: si == 2 or (si == 0 and FULL)
    post: _
    """
    return _effect2(k1, k2, s1, s2, si)


def effect2_c(k1: int, k2: int, s1: int, s2: int, si: int) -> bool:
    """
    pre: 0 <= k1 < NK and 0 <= k2 < NK and 7 <= s1 < NS and 0 <= s2 < NS
    pre: si == 2 or (si == 0 and FULL)
    post: _
    """
    return _effect2(k1, k2, s1, s2, si)


def effect3_sub(k1: int, k2: int, s2: int, s3: int) -> bool:
    """
    pre: 0 <= k1 < NK and 0 <= k2 < NK and 0 <= s2 < NS3 and 0 <= s3 < NS3
    post: _
    """
    return V(_upload(k1, k2, 2, s2, s3, 3, 2, 1, 0, False, 0, False, True, 0, 0, 0))


def effect3_n1(k1: int, k2: int, s2: int, s3: int) -> bool:
    """
    pre: 0 <= k1 < NK and 0 <= k2 < NK and 0 <= s2 < NS3 and 0 <= s3 < NS3
    post: _
    """
    return V(_upload(k1, k2, 4, s2, s3, 3, 2, 1, 0, False, 0, False, True, 0, 0, 0))


DD2 = ["up-x", "up", "out", "..", "sub", ""]
DD3 = ["sib", "new.gmi", "victim", "exist.gmi", "n1"]


def effect3_dotdot(k1: int, k2: int, s2: int, s3: int, delete: bool) -> bool:
    """
    pre: 0 <= k1 < NK and 0 <= k2 < NK and 0 <= s2 < len(DD2) and 0 <= s3 < len(DD3)
    pre: FULL or k2 == 1
    post: _
    """
    # leaving the upload directory lexically: the prefix-sharing sibling, the directory itself, an unrelated directory
    return V(_upload_path(k1, k2, "/../" + DD2[s2] + "/" + DD3[s3], 0 if delete else 2, 1, 0, False, 0, False, True, 0, 0, 0))


FPATHS = [("exist.gmi",), ("new.gmi",), ("sub", "inner.gmi"), ("newdir", "deep.gmi"), ("n1",), ("sub",), ("n1", "x.gmi")]


def fault(k1: int, pi: int, upload: bool, fail_at: int, fail_kind: int, enospc: int) -> bool:
    """
    pre: 0 <= k1 < NK and 0 <= pi < len(FPATHS)
    pre: 1 <= fail_at <= 5 and 0 <= fail_kind <= 2
    pre: 0 <= enospc <= 5
    post: _
    """
    segs = FPATHS[pi]
    s1 = SEGS.index(segs[0]) if segs[0] in SEGS else 0
    return V(_upload_path(k1, U_FILE, "/" + "/".join(segs), 2 if upload else 0, 1, 0, False, 0, False, True,
                          fail_at, fail_kind, enospc))


def through_protocol(s1: int, si: int, extra: int, cut: int, ti: int) -> bool:
    """
    pre: 0 <= s1 < NS and 1 <= si < 4 and 0 <= extra <= 50 and 0 <= ti < 3
    pre: 0 <= cut <= 1100
    pre: ti == 1 or s1 <= 1
    post: _
    """
    # the same through data_received: content = exactly the first `size` bytes after CRLF, whatever follows
    fs = build(U_ABSENT, U_FILE)
    size = SIZES[si]
    fs.install()
    try:
        h = FileUploadHandler(UP, max_size=1000, auth_tokens={"right"})
        before = _snap(fs)
        p, t, loop = make(lambda r: None, None, h)
        line = ("titan://h/" + SEGS[s1] + ";size=%d;mime=text/gemini" % size + (";token=" + TOKENS[ti] if TOKENS[ti] else "")).encode()
        stream = mk(line, b"\r\n", Fill(size), b"Z" * 0, Fill(extra))
        # the cut falls after the request line (cuts inside the line are C07's subject)
        cut = len(line) + 2 + cut
        if cut > len(stream):
            cut = len(stream)
        a, b = stream.cut(cut)
        if a:
            p.data_received(a)
        if b and not t.closed:
            p.data_received(b)
        loop.run_ready()
        data, closes, late = wire_response(t)
    finally:
        fs.uninstall()
    if closes < 1 or late:
        return V(False)
    segs = data.segs
    status = (segs[0][0] - 48) * 10 + (segs[0][1] - 48)
    return V(_judge(fs, before, status, size, mk(Fill(size)), TOKENS[ti] == "right", "/" + SEGS[s1]))


META = {
    "files": ["src/nauyaca/server/handler.py", "src/nauyaca/protocol/request.py", "src/nauyaca/server/protocol.py",
              "src/nauyaca/server/config.py"],
    "level": "model_checking",
    "explanation": ("Bounded symbolic execution of the real FileUploadHandler (and of the protocol's Titan path in front of it) "
                    "over the model file system with write tracking: kinds of two upload-tree entries (8 each: absent, file, "
                    "directory, links to outside directory / outside file / inside file / sibling file, dangling), up to three "
                    "path segments chosen by symbolic index, declared size vs limit, token, media type, delete switch, and an "
                    "injected storage fault (k-th mutating file-system call fails with EIO/EACCES, or a write stops after a "
                    "symbolic number of bytes with ENOSPC) are solver-chosen; the property is evaluated on the before/after trees."),
    "assumptions": [
        "ModelFS = kernel (validated in C02.modelfs_valid); open/write semantics: 'w' truncates at open, a failing write may have stored a prefix",
        "creating missing parent directories of a new target is part of creating the file",
        "discrete dimensions (kinds, segment choice, size class) are case-split by the engine; the ENOSPC offset and the cut offset are integers",
    ],
    "trusted": ["CrossHair 0.0.110 / z3 5.1", "pathlib executed for real"],
}

FN = ["FileUploadHandler.__init__", "handle_upload", "_handle_delete", "_is_safe_path", "TitanRequest.from_line",
      "_parse_titan_params", "parse_url"]
OBLIGATIONS = [
    Ob("policy", policy, quick=1000, thorough=3000,
       symbolic="size class (0/1/5/1000) vs limit (4/1000), token (absent/right/wrong) with auth on/off, media type allowed or not "
                "with restriction on/off, delete on/off, existing or new target",
       functions=FN, stubs=["ModelFS"], note="discrete dimensions"),
    Ob("effect1", effect1, quick=1000, thorough=3000,
       symbolic="kinds of 2 tree entries (8 each), 1 path segment (10 quick / 14 thorough names), upload of 5 bytes or delete, delete on/off",
       functions=FN, stubs=["ModelFS"]),
    Ob("effect2_a", effect2_a, quick=1000, thorough=3000,
       symbolic="kinds of 2 tree entries, 2 path segments (first in {exist.gmi | new.gmi | sub | inner.gmi}), upload of 5 bytes or delete",
       functions=FN, stubs=["ModelFS"]),
    Ob("effect2_b", effect2_b, quick=1000, thorough=3000,
       symbolic="kinds of 2 tree entries, 2 path segments (first in {n1 | n2 | victim}), upload of 5 bytes or delete",
       functions=FN, stubs=["ModelFS"]),
    Ob("effect2_c", effect2_c, quick=1000, thorough=3000,
       symbolic="kinds of 2 tree entries, 2 path segments (first in {'..' | '' | up-x | ...}), upload of 5 bytes or delete",
       functions=FN, stubs=["ModelFS"]),
    Ob("effect3_sub", effect3_sub, quick=1000, thorough=3000,
       symbolic="kinds of 2 tree entries, 3 path segments (first fixed: sub; others over 5 quick / 14 thorough names), upload of 5 bytes",
       functions=FN, stubs=["ModelFS"]),
    Ob("effect3_n1", effect3_n1, quick=1000, thorough=3000,
       symbolic="kinds of 2 tree entries, 3 path segments (first fixed: n1; others over 5 quick / 14 thorough names), upload of 5 bytes",
       functions=FN, stubs=["ModelFS"]),
    Ob("effect3_dotdot", effect3_dotdot, quick=1000, thorough=3000,
       symbolic="kinds of 2 tree entries, path /../<a>/<b> with a in {up-x (prefix-sharing sibling), up, out, .., sub, ''} and b in 5 names, upload or delete",
       functions=FN, stubs=["ModelFS"]),
    Ob("warm_upload", warm_upload, quick=600, thorough=3600,
       symbolic="a first upload / delete out of 4 (quick) / 6 targets (new file, existing file, nested, via '..', refused escape, symbolic "
                "entry), then a second one of 1-2 segments over 6 (quick) / 10 names incl. '..', the sibling directory and outside files -- "
                "both through the same handler object",
       functions=FN, stubs=["ModelFS"]),
    Ob("fault", fault, quick=1000, thorough=3000,
       symbolic="kind of 1 tree entry, 7 target paths (existing, new, nested, new directory, symbolic entry, a directory), upload of 5 bytes "
                "or delete, index of the failing mutating FS call (1..5), failure kind (EIO / EACCES / ENOSPC after 0..5 bytes)",
       functions=FN, stubs=["ModelFS with fault injection"]),
    Ob("through_protocol", through_protocol, quick=400, thorough=1200,
       symbolic="target segment, size class, 0..50 trailing bytes, one cut offset, token",
       functions=FN + ["GeminiServerProtocol.data_received", "_handle_titan_url", "_process_titan_upload", "_handle_titan_upload_result"],
       stubs=["ModelFS", "FakeTransport", "MiniLoop", "SymBuf"]),
]
