"""C11 - TOFU: nothing is sent to a peer before its certificate is verified"""
import nauyaca.protocol.request  # noqa: F401

from props.c08 import is_qchar
from vf import Ob, V, admit, pick
from vf.clientrun import Env
from vf.symbuf import Fill, mk

NSEQ = pick(2, 3)
K1 = ("a.example", 1965)
K2 = ("b.example", 7000)
SIZES = [1, 70000, 10 * 1024 * 1024]


def _setup(env, key, sit):
    """sit: 0 unpinned, 1 pinned to the presented certificate, 2 pinned to another one, 3 unreadable certificate,
    4 pinned, peer presents a different certificate that is also expired, 5 unpinned and the certificate is expired,
    6 pinned to the (not yet valid) certificate that is presented"""
    if sit == 1:
        env.pin(key[0], key[1], 0)
    elif sit == 2 or sit == 4:
        env.pin(key[0], key[1], 1)
    elif sit == 6:
        env.pin(key[0], key[1], 4)
    env.cert_for[key] = "bad" if sit == 3 else 3 if sit in (4, 5) else 4 if sit == 6 else 0


def _must_fail(sit):
    return sit in (2, 3, 4)


def order(sit: int, entry: int, q: int, tk: int, si: int) -> bool:
    """
    pre: 0 <= sit <= 6 and 0 <= entry <= 3 and 0 <= si <= 2
    pre: is_qchar(q) and is_qchar(tk) and tk != 0x3b
    pre: admit("C11.order", sit=sit, entry=entry)
    post: _
    """
    env = Env(True)
    _setup(env, K1, sit)
    c = env.client
    if entry == 0:
        coro = c.get("gemini://a.example/secret-path", follow_redirects=False)
    elif entry == 1:
        coro = c.get("gemini://a.example/search?q=" + chr(q), follow_redirects=False)
    elif entry == 2:
        coro = c.upload("gemini://a.example/up", mk(Fill(SIZES[si])), token="T" + chr(tk))
    else:
        coro = c.delete("gemini://a.example/up", token="T" + chr(tk))
    res, exc = env.run(coro)
    if len(env.conns) != 1:
        return V(False)
    t = env.conns[0]
    if t.rx_before_verify != 0:
        return V(False)                    # request bytes left before the pin check had passed
    if _must_fail(sit):
        return V(res is None and exc is not None and t.total_rx() == 0)
    # otherwise either the call succeeds (after verification) or it is refused without a byte sent
    if res is None:
        return V(t.total_rx() == 0)
    return V(t.total_rx() > 0)


def _op(c, entry):
    if entry == 0:
        return c.get("gemini://a.example/secret-path?tok=1", follow_redirects=False)
    if entry == 1:
        return c.get("gemini://a.example/other", follow_redirects=True)
    if entry == 2:
        return c.upload("gemini://a.example/up", b"CONTENT", token="T0")
    return c.delete("gemini://a.example/up", token="T0")


def sequence(sit: int, e1: int, e2: int, e3: int, n: int) -> bool:
    """
    pre: 0 <= sit <= 6 and 0 <= e1 <= 3 and 0 <= e2 <= 3 and 0 <= e3 <= 3 and 2 <= n <= NSEQ
    post: _
    """
    # several operations by ONE client object against the same peer: whatever the client remembers
    # between calls, no request byte may leave before that connection's certificate has passed verification
    env = Env(True)
    _setup(env, K1, sit)
    c = env.client
    for i, e in enumerate([e1, e2, e3][:n]):
        res, exc = env.run(_op(c, e))
        if len(env.conns) != i + 1:
            return V(False)
        t = env.conns[i]
        if t.rx_before_verify != 0:
            return V(False)
        if _must_fail(sit) and (res is not None or exc is None or t.total_rx() != 0):
            return V(False)
    return V(True)


ALIASES = ["a.example.", "a.example:1965", "A.Example", "a.example.:1965"]


def _op_on(c, entry, authority):
    if entry == 0:
        return c.get("gemini://%s/secret-path?tok=1" % authority, follow_redirects=False)
    if entry == 1:
        return c.get("gemini://%s/other" % authority, follow_redirects=True)
    if entry == 2:
        return c.upload("gemini://%s/up" % authority, b"CONTENT", token="T0")
    return c.delete("gemini://%s/up" % authority, token="T0")


def alias_spelling(ai: int, e1: int, e2: int, same: bool) -> bool:
    """
    pre: 0 <= ai < len(ALIASES) and 0 <= e1 <= 3 and 0 <= e2 <= 3
    post: _
    """
    # the host is pinned to certificate 0; an impostor presenting certificate 1 is first reached under another spelling
    # of the authority (trailing dot, explicit default port, upper case), then under the canonical one.  Whatever the
    # first exchange did (refused, or pinned the other spelling as a host of its own), it must not have replaced the
    # canonical pin, and the canonical request must not leave the client.
    from vf.clientrun import FPS
    env = Env(True)
    env.pin("a.example", 1965, 0)
    for key in (("a.example", 1965), ("a.example.", 1965)):
        env.cert_for[key] = 0 if same else 1
    c = env.client
    env.run(_op_on(c, e1, ALIASES[ai]))
    for t in env.conns:
        if t.rx_before_verify != 0:
            return V(False)
    if env.pins().get(("a.example", 1965)) != FPS[0]:
        return V(False)
    n1 = len(env.conns)
    res, exc = env.run(_op_on(c, e2, "a.example"))
    if len(env.conns) != n1 + 1:
        return V(False)
    t = env.conns[-1]
    if t.rx_before_verify != 0:
        return V(False)
    if same:
        return V(res is not None and exc is None)
    return V(res is None and exc is not None and t.total_rx() == 0 and env.pins().get(("a.example", 1965)) == FPS[0])


def redirect_second_hop(sit2: int, q: int) -> bool:
    """
    pre: 0 <= sit2 <= 6 and is_qchar(q)
    pre: admit("C11.redirect_second_hop", sit2=sit2)
    post: _
    """
    env = Env(True)
    _setup(env, K1, 0)
    _setup(env, K2, sit2)
    env.answer_for[(K1[0], K1[1], None)] = ("31 gemini://b.example:7000/next?s=" + chr(q) + "\r\n").encode()
    res, exc = env.run(env.client.get("gemini://a.example/start"))
    if len(env.conns) != 2:
        return V(False)
    t2 = env.conns[1]
    if env.conns[0].rx_before_verify != 0 or t2.rx_before_verify != 0:
        return V(False)
    if _must_fail(sit2):
        return V(res is None and exc is not None and t2.total_rx() == 0)
    return V(res is not None or t2.total_rx() == 0)


META = {
    "files": ["src/nauyaca/client/protocol.py", "src/nauyaca/client/session.py", "src/nauyaca/security/tofu.py"],
    "level": "model_checking",
    "explanation": ("Bounded symbolic execution of the real client entry points against a scripted peer transport that counts "
                    "every byte it receives before the real TOFUDatabase.verify/trust has passed for that connection; pin "
                    "situation, entry point, a query character, a token character and the upload size class are solver-chosen."),
    "assumptions": [
        "create_connection calls connection_made when the TLS handshake is complete and returns afterwards (asyncio contract)",
        "first use counts as verified once the pin has been stored",
        "ModelSQL contract as in C12; upload sizes are a discrete dimension (str(int) of a symbolic length is enumerated by the engine)",
    ],
    "trusted": ["CrossHair 0.0.110 / z3 5.1", "asyncio create_connection ordering"],
}
FN = ["GeminiClientProtocol.connection_made", "TitanClientProtocol.connection_made", "GeminiClient._get_single", "upload",
      "delete", "_get_with_redirects", "TOFUDatabase.verify", "trust"]
OBLIGATIONS = [
    Ob("alias_spelling", alias_spelling, quick=300, thorough=600,
       symbolic="4 other spellings of a pinned authority (trailing dot, explicit default port, upper case, both), entry points of the "
                "two operations (4 x 4), impostor or genuine certificate",
       functions=FN, stubs=["scripted peer", "ModelSQL", "MiniLoop"]),
    Ob("order", order, quick=400, thorough=1200,
       symbolic="pin situation (unpinned / same / changed / unreadable / changed+expired / unpinned+expired / pinned not-yet-valid), entry point (get, get with query, upload with token, delete), "
                "query character, token character (any query-safe ASCII code point), upload size class (1 B, 70 kB, 10 MiB)",
       functions=FN, stubs=["scripted peer transport", "ModelSQL", "MiniLoop"]),
    Ob("sequence", sequence, quick=400, thorough=1200,
       symbolic="2 (quick) / 3 (thorough) consecutive operations (get, get+redirects, upload, delete) by one client object, pin situation (7)",
       functions=FN, stubs=["scripted peer transport", "ModelSQL", "MiniLoop"]),
    Ob("redirect_second_hop", redirect_second_hop, quick=300, thorough=900,
       symbolic="pin situation of the redirect target, query character of the redirect target",
       functions=FN, stubs=["scripted peer transport", "ModelSQL", "MiniLoop"]),
]
