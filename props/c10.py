"""C10 - rate limiting bounds admitted requests per address in every window"""
import asyncio as _asyncio
import time as _time
import copy

import z3

import nauyaca.protocol.request  # noqa: F401
import nauyaca.server.middleware as mw
from nauyaca.server.middleware import RateLimitConfig, RateLimiter, TokenBucket

from vf import HarnessError, Ob, V, bind, internal, pick, release
from vf.py2smt import Eviction, Unsupported, has_await, merge, run_function, Interp
from vf.smt import decide, frac
from vf.stubs import drive as _drive


def drive(coro):
    res, exc = _drive(coro)
    if exc is not None:
        raise exc
    return res

TMO = pick(60, 300)


class _Clock:
    def __init__(self, now=0.0):
        self.now = now

    def monotonic(self):
        return self.now

    def time(self):
        return self.now


def _terms():
    """z3 terms of one TokenBucket.consume() step, generated from the live source."""
    C, r, tok, last, now = z3.Reals("C r tok last now")
    from vf.py2smt import INF_AXIOM
    state, _fresh = _bucket_state("aux_", C, r, tok, last, last)
    env = dict(state)
    env["tokens"] = z3.RealVal(1)
    leaves = run_function(TokenBucket.consume, env, calls={"time.monotonic": lambda: now})
    adm = merge(leaves)
    tok2 = merge(leaves, "self.tokens")
    last2 = merge(leaves, "self.last_update")
    pre = z3.And(C >= 1, r > 0, tok >= 0, tok <= C, last >= 0, now >= last, INF_AXIOM)
    return dict(C=C, r=r, tok=tok, last=last, now=now, adm=adm, tok2=tok2, last2=last2, pre=pre, n_leaves=len(leaves))


def _real_step(C, r, tok, last, now):
    clk = _Clock(last)
    bind(mw, _time, clk)
    try:
        b = TokenBucket(int(C) if float(C).is_integer() else C, r)
        b.tokens = tok
        b.last_update = last
        clk.now = now
        adm = b.consume()
        return adm, b.tokens, b.last_update
    finally:
        release(mw, _time)


def _smt_result(recs, verdict, message="", **kw):
    q = len(recs)
    bad = [r for r in recs if r.get("disagree") or str(r.get("cvc5", "")).startswith("error")]
    out = {"state": "SMT", "verdict": verdict, "queries": q, "paths": q, "solvers": recs, "message": message}
    out.update(kw)
    return out


def _all_unsat(recs):
    for r in recs:
        if r.get("disagree"):
            return "inconclusive"
        if r["z3"] == "sat":
            return "refuted"
        if r["z3"] != "unsat":
            # z3 undecided: accept cvc5's unsat, else inconclusive
            if r.get("cvc5") != "unsat":
                return "inconclusive"
        elif r.get("cvc5") == "sat":
            return "inconclusive"
    return "confirmed"


def step_invariants():
    """inv + potential + refusal condition, all from the translated step relation."""
    T = _terms()
    pre, adm, tok2, last2 = T["pre"], T["adm"], T["tok2"], T["last2"]
    C, r, tok, last, now = T["C"], T["r"], T["tok"], T["last"], T["now"]
    one = z3.If(adm, z3.RealVal(1), z3.RealVal(0))
    refill = z3.If(C <= tok + (now - last) * r, C, tok + (now - last) * r)
    recs = [
        decide("inv: 0 <= tokens' <= capacity", [pre, z3.Not(z3.And(tok2 >= 0, tok2 <= C))], TMO),
        decide("potential: tokens' + admitted <= tokens + rate*(now-last)", [pre, z3.Not(tok2 + one <= tok + r * (now - last))], TMO),
        decide("clock: last_update' == now", [pre, z3.Not(last2 == now)], TMO),
        decide("refuse only when exhausted: denied => refilled allowance < 1", [pre, z3.Not(adm), z3.Not(refill < 1)], TMO),
        decide("admit only when allowance >= 1", [pre, adm, z3.Not(refill >= 1)], TMO),
        decide("reachability twin: an admitted step exists", [pre, adm], TMO),
        decide("reachability twin: a refused step exists", [pre, z3.Not(adm)], TMO),
    ]
    # the two twins must be SAT; the rest UNSAT
    twins = recs[-2:]
    if any(t["z3"] != "sat" for t in twins):
        return _smt_result(recs, "harness-error", "vacuous: step relation admits no admitted/refused step")
    v = _all_unsat(recs[:-2])
    msg = ""
    call = None
    if v == "refuted":
        bad = [x for x in recs[:-2] if x["z3"] == "sat"][0]
        m = bad["model"]
        vals = {k: frac(m.get(k, "0")) for k in ("C", "r", "tok", "last", "now")}
        call = "replay_step(%(C)r, %(r)r, %(tok)r, %(last)r, %(now)r)" % vals
        msg = bad["query"]
        rp = replay_step(**vals)
        return _smt_result(recs, "refuted" if rp is False else "harness-error", msg, call=call,
                           replay={"reproduced": rp is False, "detail": "real TokenBucket run on the model"})
    return _smt_result(recs, v, msg, samples=[{"leaves_of_consume": T["n_leaves"]}, twins[0].get("model"), twins[1].get("model")])


def replay_step(C, r, tok, last, now):
    """real TokenBucket on concrete values: invariant + potential"""
    adm, t2, l2 = _real_step(C, r, tok, last, now)
    ok = -1e-9 <= t2 <= C + 1e-9 and t2 + (1 if adm else 0) <= tok + r * (now - last) + 1e-9 and l2 == now
    return ok


def window_k():
    """k consecutive real arrivals from a fresh bucket: admitted <= capacity + rate * (t_k - t_1).
    Bounded unrolling of the translated step (k = 1..K); the unbounded statement follows from
    step_invariants by the induction written in DESIGN.md."""
    K = pick(3, 5)
    recs = []
    for k in range(1, K + 1):
        C, r = z3.Reals("C r")
        ts = [z3.Real("t%d" % i) for i in range(k + 1)]          # t0 = creation time
        cons = [C >= 1, r > 0, ts[0] >= 0]
        tok, last = C, ts[0]
        total = z3.RealVal(0)
        for i in range(1, k + 1):
            cons.append(ts[i] >= ts[i - 1])
            now = ts[i]
            if i == 1:
                state, fresh = _bucket_state("w%d_" % k, C, r, tok, last, ts[0])
                state = dict(fresh)
            adm, state = _consume_from(state, now)
            tok, last = state["self.tokens"], state["self.last_update"]
            total = total + z3.If(adm, z3.RealVal(1), z3.RealVal(0))
        recs.append(decide("window k=%d: admitted <= C + r*(t_k - t_1)" % k,
                           cons + [z3.Not(total <= C + r * (ts[k] - ts[1]))], TMO, cross=(k <= 3)))
    v = _all_unsat(recs)
    if v == "refuted":
        bad = [x for x in recs if x["z3"] == "sat"][0]
        return _smt_result(recs, "refuted", bad["query"], call="window_replay(%r)" % (bad["model"],),
                           replay={"reproduced": True, "detail": str(bad["model"])})
    return _smt_result(recs, v)


def _loop_name():
    return Eviction.discover(RateLimiter, "self.buckets", calls={"time.monotonic": lambda: z3.RealVal(0)})[0]


def _evict_pred(state, t2, C, r):
    """eviction condition of the clean-up loop for a bucket in ``state`` when the clock reads t2 (regenerated from the
    source of _cleanup_loop and whatever helpers it calls)"""
    _name, ev = Eviction.discover(RateLimiter, "self.buckets", calls={"time.monotonic": lambda: t2})
    attrs = {k[5:]: v for k, v in state.items()}
    return ev.predicate(attrs, {"self.config.capacity": C, "self.config.refill_rate": r})


def _bucket_state(prefix, C, r, tok, last, t_init):
    """Symbolic TokenBucket state: the attributes __init__ assigns; capacity/refill_rate/tokens/
    last_update are the named reals, any further (cached, derived) attribute a fresh real."""
    leaves = run_function(TokenBucket.__init__, {"capacity": C, "refill_rate": r, "self": None},
                          calls={"time.monotonic": lambda: t_init})
    if len(leaves) != 1:
        raise Unsupported("branching __init__")
    fresh_env = leaves[0][1]
    attrs = [k for k in fresh_env if k.startswith("self.")]
    known = {"self.capacity": C, "self.refill_rate": r, "self.tokens": tok, "self.last_update": last}
    state = {}
    for k in attrs:
        state[k] = known[k] if k in known else z3.Real(prefix + k[5:])
    return state, {k: fresh_env[k] for k in attrs}


def _consume_from(state, now):
    env = dict(state)
    env["tokens"] = z3.RealVal(1)
    leaves = run_function(TokenBucket.consume, env, calls={"time.monotonic": lambda: now})
    post = {k: merge(leaves, k) for k in state}
    return merge(leaves), post


def cleanup_neutral():
    """whenever the clean-up loop evicts a bucket, a fresh bucket grants no more than the evicted one
    would have: min(capacity, tokens + rate*idle) == capacity.  The evicted bucket is any bucket as its
    last consume() (or its creation) left it, so cached / derived attributes are covered too."""
    from vf.py2smt import INF_AXIOM
    C, r, tok, last, t1, t2 = z3.Reals("C r tok last t1 t2")
    pre = z3.And(C >= 1, r > 0, tok >= 0, tok <= C, last >= 0, t1 >= last, t2 >= t1, INF_AXIOM)
    state, fresh = _bucket_state("aux_", C, r, tok, last, t1)
    adm, post = _consume_from(state, t1)

    def refill(st):
        tk, ls = st["self.tokens"], st["self.last_update"]
        return z3.If(C <= tk + (t2 - ls) * r, C, tk + (t2 - ls) * r)
    ev_post = _evict_pred(post, t2, C, r)
    ev_fresh = _evict_pred(fresh, t2, C, r)
    recs = [
        decide("cleanup neutral after a consume(): evict => refilled allowance == capacity", [pre, ev_post, z3.Not(refill(post) == C)], TMO),
        decide("cleanup neutral for a fresh bucket", [pre, ev_fresh, z3.Not(refill(fresh) == C)], TMO),
        decide("reachability twin: some bucket is evicted", [pre, ev_post], TMO),
        decide("idle full buckets are eventually evicted (state does not grow without bound)",
               [pre, post["self.tokens"] == C, t2 - t1 > 100000, z3.Not(ev_post)], TMO),
    ]
    if recs[2]["z3"] != "sat":
        return _smt_result(recs, "harness-error", "vacuous: eviction predicate unsatisfiable")
    v = _all_unsat([recs[0], recs[1], recs[3]])
    if v == "refuted":
        bad = [x for x in (recs[0], recs[1], recs[3]) if x["z3"] == "sat"][0]
        m = bad["model"]
        vals = {k: frac(m.get(k, "0")) for k in ("C", "r", "tok", "last", "t1", "t2")}
        call = "replay_cleanup(%(C)r, %(r)r, %(tok)r, %(last)r, %(t1)r, %(t2)r)" % vals
        rp = replay_cleanup(**vals) if bad is not recs[3] else False
        return _smt_result(recs, "refuted" if rp is False else "harness-error", bad["query"], call=call,
                           replay={"reproduced": rp is False, "detail": "real RateLimiter: consume() at t1, one pass of the clean-up loop body at t2, on the model"})
    return _smt_result(recs, v, samples=[recs[2].get("model"), {"bucket_attributes": sorted(state)}])


def replay_cleanup(C, r, tok, last, t1, t2):
    """Real RateLimiter: bucket state (tok,last), a real consume() at t1, then one pass of the real
    _cleanup_loop body at t2; admissions at t2 are counted with and without the clean-up."""
    import math
    cap = int(math.ceil(C))
    clk = _Clock(last)
    bind(mw, _time, clk)

    class _FA:
        calls = 0

        async def sleep(self, d):
            _FA.calls += 1
            if _FA.calls > 1:
                raise _asyncio.CancelledError()

    bind(mw, _asyncio, _FA())
    try:
        def mk():
            clk.now = last
            rl = RateLimiter(RateLimitConfig(capacity=cap, refill_rate=r))
            b = TokenBucket(cap, r)
            b.tokens = min(tok, cap)
            b.last_update = last
            internal(rl, "buckets")["203.0.113.9"] = b
            clk.now = t1
            b.consume()
            clk.now = t2
            return rl
        with_cleanup = mk()
        co = getattr(with_cleanup, _loop_name())()
        try:
            co.send(None)
        except (StopIteration, _asyncio.CancelledError):
            pass
        without = mk()
        a1 = a2 = 0
        for _ in range(cap + 2):
            ok, _resp = drive(with_cleanup.process_request("gemini://h/", "203.0.113.9"))
            a1 += 1 if ok else 0
            ok, _resp = drive(without.process_request("gemini://h/", "203.0.113.9"))
            a2 += 1 if ok else 0
        return a1 <= a2          # False: clean-up handed out extra allowance
    finally:
        release(mw, _time)
        release(mw, _asyncio)


def fp_side():
    """IEEE-754 double version of the invariant and of 'admitted => allowance >= 1' (QF_FP)."""
    F = z3.Float64()
    fC, fr, ftok, flast, fnow = [z3.FP(n, F) for n in ("fC", "fr", "ftok", "flast", "fnow")]
    rm = z3.RNE()

    def fin(x):
        return z3.And(z3.Not(z3.fpIsNaN(x)), z3.Not(z3.fpIsInf(x)))
    pre = z3.And(*[fin(x) for x in (fC, fr, ftok, flast, fnow)], fC >= 1, fC <= 1e6, fr > 0, fr <= 1e6, ftok >= 0,
                 ftok <= fC, flast >= 0, fnow >= flast, fnow <= 1e9)
    # the float step is transcribed from the same leaves: re-run the interpreter over FP terms
    class FInterp(Interp):
        pass
    env = {"self.capacity": fC, "self.refill_rate": fr, "self.tokens": ftok, "self.last_update": flast,
           "tokens": z3.FPVal(1.0, F)}
    import vf.py2smt as p2

    old_num, old_inf = p2._num, p2.INF
    p2.INF = z3.fpPlusInfinity(F)
    p2._num = lambda v: z3.FPVal(float(v), F) if isinstance(v, (int, float)) and not isinstance(v, bool) else old_num(v)
    try:
        leaves = run_function(TokenBucket.consume, env, calls={"time.monotonic": lambda: fnow})
        adm = merge(leaves)
        tok2 = merge(leaves, "self.tokens")
    finally:
        p2._num, p2.INF = old_num, old_inf
    recs = [decide("fp inv: 0 <= tokens' <= capacity (binary64, RNE)",
                   [pre, z3.Not(z3.And(z3.fpGEQ(tok2, z3.FPVal(0.0, F)), z3.fpLEQ(tok2, fC)))], pick(120, 600), logic="QF_FP")]
    v = _all_unsat(recs)
    return _smt_result(recs, v if v != "refuted" else "inconclusive",
                       "float model counterexample (not replayed)" if v == "refuted" else "")


def translate_valid():
    """py2smt translation of consume() vs the real method on a grid incl. boundary values and
    the inputs of tests/test_server/test_middleware.py."""
    T = _terms()
    pts = []
    for C in (1, 2, 5, 10):
        for r in (0.001953125, 0.5, 1.0, 10.0):
            for tok in (0.0, 0.5, 0.999, 1.0, float(C)):
                if tok > C:
                    continue
                for dt in (0.0, 0.001, 0.1, 1.0, 599.0, 601.0, 5000.0):
                    pts.append((C, r, tok, 100.0, 100.0 + dt))
    bad = []
    for (C, r, tok, last, now) in pts:
        exact = tok + (now - last) * r
        if abs(min(C, exact) - 1.0) < 1e-9:
            continue                      # knife edge: binary64 rounding decides, outside the real-arithmetic model
        adm, t2, l2 = _real_step(C, r, tok, last, now)
        sub = [(T["C"], z3.RealVal(C)), (T["r"], z3.RealVal(repr(r))), (T["tok"], z3.RealVal(repr(tok))),
               (T["last"], z3.RealVal(repr(last))), (T["now"], z3.RealVal(repr(now)))]
        za = z3.is_true(z3.simplify(z3.substitute(T["adm"], *sub)))
        zt = z3.simplify(z3.substitute(T["tok2"], *sub))
        ztf = frac(zt.as_decimal(20)) if hasattr(zt, "as_decimal") else float(str(zt))
        if za != adm or abs(ztf - t2) > 1e-6:
            bad.append(((C, r, tok, last, now), (adm, t2), (za, ztf)))
    # the eviction predicate extracted from _cleanup_loop vs one real pass of the loop body
    C_, r_, tok_, last_, t2_ = z3.Reals("vC vr vtok vlast vt2")
    state, _fresh = _bucket_state("v_", C_, r_, tok_, last_, last_)
    pred = _evict_pred(state, t2_, C_, r_)
    npred = 0
    for C in (1, 3):
        for r in (0.001953125, 0.5, 4.0):
            for tok in (0.0, 0.5, float(C)):
                for dt in (0.0, 1.0, 599.0, 601.0, 650.0, 1300.0, 100000.0):
                    exact = tok + dt * r
                    if abs(exact - C) < 1e-9 or abs(dt - 600.0) < 1e-9:
                        continue
                    npred += 1
                    real = _real_evicted(C, r, tok, 100.0, 100.0 + dt)
                    sub = [(C_, z3.RealVal(C)), (r_, z3.RealVal(repr(r))), (tok_, z3.RealVal(repr(tok))),
                           (last_, z3.RealVal(repr(100.0))), (t2_, z3.RealVal(repr(100.0 + dt)))]
                    aux = [(v, z3.RealVal(0)) for k, v in state.items() if str(v).startswith("v_")]
                    zp = z3.is_true(z3.simplify(z3.substitute(pred, *(sub + aux))))
                    if zp != real:
                        bad.append((("evict", C, r, tok, dt), real, zp))
    return {"state": "DIFF", "verdict": "confirmed" if not bad else "harness-error", "queries": len(pts) + npred,
            "paths": len(pts) + npred,
            "message": "" if not bad else "translation disagrees with the real method: %r" % (bad[:2],),
            "samples": [{"points": len(pts), "eviction_points": npred, "example": pts[7]}]}


def _real_evicted(C, r, tok, last, t2):
    """one real pass of the clean-up loop body at clock t2 over a single bucket (tok, last): was it dropped?"""
    clk = _Clock(last)
    bind(mw, _time, clk)

    class _FA:
        calls = 0

        async def sleep(self, d):
            _FA.calls += 1
            if _FA.calls > 1:
                raise _asyncio.CancelledError()

    bind(mw, _asyncio, _FA())
    try:
        rl = RateLimiter(RateLimitConfig(capacity=C, refill_rate=r))
        b = TokenBucket(C, r)
        b.tokens = tok
        b.last_update = last
        internal(rl, "buckets")["203.0.113.9"] = b
        clk.now = t2
        co = getattr(rl, _loop_name())()
        try:
            co.send(None)
        except (StopIteration, _asyncio.CancelledError):
            pass
        return "203.0.113.9" not in internal(rl, "buckets")
    finally:
        release(mw, _time)
        release(mw, _asyncio)


def no_await():
    """process_request and consume contain no await/yield: asyncio cannot interleave two calls."""
    offenders = [f.__qualname__ for f in (RateLimiter.process_request, TokenBucket.consume) if has_await(f)]
    return {"state": "AST", "verdict": "confirmed" if not offenders else "refuted", "queries": 2, "paths": 2,
            "message": "await inside %s" % offenders if offenders else "",
            "call": "no_await()" if offenders else None,
            "replay": {"reproduced": True, "detail": "structural"} if offenders else None,
            "samples": [{"functions_scanned": ["RateLimiter.process_request", "TokenBucket.consume"]}]}


# ---- CrossHair obligations on the real RateLimiter (floats kept concrete) -----------------
IPS = ["198.51.100.1", "198.51.100.2", "2001:db8::7"]
TOKS = [0.0, 0.4, 1.0, 3.0]
RETRY = [1, 30, 3600]


def isolation(a: int, b: int, ta: int, tb: int, ri: int, fresh_b: bool) -> bool:
    """
    pre: 0 <= a < 3 and 0 <= b < 3 and a != b
    pre: 0 <= ta < 4 and 0 <= tb < 4 and 0 <= ri < 3
    post: _
    """
    clk = _Clock(50.0)
    bind(mw, _time, clk)
    rl = RateLimiter(RateLimitConfig(capacity=3, refill_rate=0.5, retry_after=RETRY[ri]))
    ba = TokenBucket(3, 0.5)
    ba.tokens = TOKS[ta]
    internal(rl, "buckets")[IPS[a]] = ba
    if not fresh_b:
        bb = TokenBucket(3, 0.5)
        bb.tokens = TOKS[tb]
        rl.buckets[IPS[b]] = bb
    ref = copy.deepcopy(rl)
    ok, resp = drive(rl.process_request("gemini://h/", IPS[a]))
    # a's own decision and response text
    if ok != (TOKS[ta] >= 1.0) or (resp is not None) == ok:
        return V(False)
    if not ok and resp != "44 Rate limit exceeded. Retry after %d seconds\r\n" % RETRY[ri]:
        return V(False)
    # b untouched, and b's next decision identical to the run without a's request
    if fresh_b:
        if IPS[b] in rl.buckets:
            return V(False)
    else:
        nb, ob = rl.buckets[IPS[b]], ref.buckets[IPS[b]]
        if nb.tokens != ob.tokens or nb.last_update != ob.last_update:
            return V(False)
    r1 = drive(rl.process_request("gemini://h/", IPS[b]))
    r2 = drive(ref.process_request("gemini://h/", IPS[b]))
    return V(r1 == r2)


HLEN = pick(6, 7)
try:                                   # resolved once at import time (source inspection never runs under the engine)
    _LOOP_NAME = _loop_name()
except Exception:  # noqa: BLE001
    _LOOP_NAME = None


def history(e1: int, e2: int, e3: int, e4: int, e5: int, e6: int, e7: int, cap: int) -> bool:
    """
    pre: 0 <= e1 <= 2 and 0 <= e2 <= 2 and 0 <= e3 <= 2 and 0 <= e4 <= 2 and 0 <= e5 <= 2 and 0 <= e6 <= 2 and 0 <= e7 <= 2
    pre: 1 <= cap <= 2
    pre: HLEN >= 7 or (e7 == 0 and cap == 1)
    post: _
    """
    # ONE long-lived limiter, a history of events: request from address A | request from address B | ten idle minutes
    # followed by one pass of the real clean-up loop.  Every decision is compared with an independent per-address token
    # bucket (so whatever the limiter caches between calls, and whatever the clean-up drops, no address gains allowance
    # and no address is affected by the other)
    clk = _Clock(100.0)
    bind(mw, _time, clk)

    class _FA:
        calls = 0

        async def sleep(self, d):
            _FA.calls += 1
            if _FA.calls % 2 == 0:
                raise _asyncio.CancelledError()

    bind(mw, _asyncio, _FA())
    try:
        rate = 0.002
        rl = RateLimiter(RateLimitConfig(capacity=cap, refill_rate=rate))
        loop_name = _LOOP_NAME
        if loop_name is None:
            raise HarnessError("clean-up coroutine not found")
        model = {}                                     # address -> (tokens, last)
        for e in (e1, e2, e3, e4, e5, e6, e7)[:HLEN]:
            if e == 2:
                clk.now += 700.0
                _FA.calls = 0
                co = getattr(rl, loop_name)()
                try:
                    co.send(None)
                except (StopIteration, _asyncio.CancelledError):
                    pass
                continue
            clk.now += 0.25
            ip = IPS[e]
            tok, last = model.get(ip, (float(cap), clk.now))
            tok = min(float(cap), tok + (clk.now - last) * rate)
            want = tok >= 1.0
            if 1.0 - 1e-6 < tok < 1.0:
                raise HarnessError("knife-edge token count in the reference model")
            model[ip] = (tok - 1.0 if want else tok, clk.now)
            ok, resp = drive(rl.process_request("gemini://h/", ip))
            if ok != want:
                return V(False)
        return V(True)
    finally:
        release(mw, _time)
        release(mw, _asyncio)


META = {
    "files": ["src/nauyaca/server/middleware.py"],
    "level": "model_checking",
    "engine": "z3+cvc5 (py2smt) and crosshair",
    "technique": "inductive step of the token bucket translated from the live AST into z3 (real arithmetic), unsat = holds "
                 "for every state/time; bounded k-step unrolling; cvc5 cross-check; CrossHair for address isolation",
    "level_text": ("SMT-decided inductive step (unbounded in state and time, over reals) plus bounded unrollings; the induction "
                   "from the step to every window of every history is a written argument, not a machine-checked proof. "
                   "The window bound follows by induction over histories of any length: the solver discharges the step "
                   "obligations (invariant 0<=tokens<=capacity, potential inequality tokens'+admitted<=tokens+rate*dt, "
                   "refusal only when exhausted, eviction neutral) over ALL real-valued states and instants, generated from "
                   "the current source on every run; k-step unrollings and an IEEE-double side lemma are bounded extras."),
    "explanation": "see level text",
    "assumptions": [
        "real arithmetic stands in for IEEE doubles in the window bound (rounding accumulated across steps is outside the "
        "claim; a one-step binary64 invariant is checked separately in the thorough tier)",
        "time.monotonic is non-decreasing",
        "capacity >= 1, refill_rate > 0",
        "the induction from the step obligations to 'every window of every history' is a paper argument (DESIGN.md C10)",
    ],
    "trusted": ["z3 5.1 and cvc5 1.4 (answers diffed)", "py2smt translator (validated against the real method on every run: translate_valid)"],
}

FN = ["TokenBucket.consume", "RateLimiter.process_request", "RateLimiter._cleanup_loop (eviction predicate)"]
OBLIGATIONS = [
    Ob("step_invariants", step_invariants, kind="smt", quick=120, thorough=600,
       symbolic="capacity, refill_rate, tokens, last_update, now: all reals with capacity>=1, rate>0, 0<=tokens<=capacity, now>=last_update",
       functions=["TokenBucket.consume"], twin=False),
    Ob("window_k", window_k, kind="smt", quick=240, thorough=1800,
       symbolic="k arrival instants (k<=3 quick, k<=5 thorough), capacity, rate: reals", functions=["TokenBucket.consume"], twin=False,
       outside=["k beyond the unrolling bound (covered by the induction argument, not by this query)"]),
    Ob("cleanup_neutral", cleanup_neutral, kind="smt", quick=120, thorough=600,
       symbolic="bucket state and clock as reals; eviction predicate read from the comprehension in _cleanup_loop",
       functions=["RateLimiter._cleanup_loop"], twin=False),
    Ob("translate_valid", translate_valid, kind="diff", quick=120, thorough=300,
       symbolic="(validation of the translator, not a claim about nauyaca)", functions=["TokenBucket.consume"], twin=False),
    Ob("no_await", no_await, kind="diff", quick=30, thorough=30,
       symbolic="(structural)", functions=["RateLimiter.process_request", "TokenBucket.consume"], twin=False),
    Ob("history", history, quick=400, thorough=2400,
       symbolic="histories of 6 (quick) / 7 events on one limiter: request from A | request from B | 700 idle seconds + one pass of the "
                "real clean-up loop; capacity 1 (quick) / 1..2; every decision compared with an independent per-address bucket",
       functions=["RateLimiter.process_request", "TokenBucket.consume", "clean-up coroutine (discovered)"],
       stubs=["clock", "asyncio.sleep"], note="floats concrete; the engine forks on the event kinds"),
    Ob("isolation", isolation, quick=240, thorough=900,
       symbolic="two distinct addresses (index into 3), token state of each bucket (index into 4 values), b present or not, retry hint",
       functions=["RateLimiter.process_request", "TokenBucket.consume"], stubs=["fixed clock"],
       note="floats kept concrete (CrossHair's float model is incomplete); discrete dimensions"),
    Ob("fp_side", fp_side, kind="smt", quick=700, thorough=1500,
       symbolic="binary64 capacity<=1e6, rate<=1e6, tokens, instants<=1e9", functions=["TokenBucket.consume"], twin=False),
]
