"""C01 - exactly one well-formed Gemini response per connection"""
import nauyaca.protocol.request  # noqa: F401
from nauyaca.protocol.response import GeminiResponse

from vf import Ob, V, pick
from vf.server import bytes_equal, make, well_formed, wire_parts, wire_response
from vf.symbuf import Fill, deliver, mk


NB = pick(1, 2)
EV3 = pick(False, True)     # quick: 2 free events + task completion; thorough: 3 free events


class HErr(Exception):
    """A handler's own exception type whose text is produced at Python level (the property
    quantifies over exceptions of any type; C-level BaseException.__str__ would only make
    the engine enumerate the text)."""

    def __str__(self):
        return self.args[0]


def is_scalar(i):
    return 0 <= i <= 0x10FFFF and not (0xD800 <= i <= 0xDFFF)


def is_meta_char(i):
    """what the handler API contract allows inside a meta: no CR, no LF"""
    return is_scalar(i) and i != 13 and i != 10


def _body(bk):
    return [None, "", "x", b"y", "é\n# t", "n\udc80"][bk]     # last: lone surrogate (undecodable file name)


class _H:
    """Request handler with a symbolic outcome."""

    def __init__(self, is_async, raises, st, mc, bk, ec):
        self.is_async, self.raises, self.st, self.mc, self.bk, self.ec = is_async, raises, st, mc, bk, ec
        self.calls = 0

    def _outcome(self):
        if self.raises:
            raise HErr("boom" + chr(self.ec) + "!")
        body = _body(self.bk) if 20 <= self.st <= 29 else None
        self.returned = body
        return GeminiResponse(status=self.st, meta="m" + chr(self.mc), body=body)

    def faithful(self, t):
        """a 2x header on the wire is followed by exactly the body the handler returned
        (so a second header can never pose as a body); unencodable text may be refused with
        a non-2x status or sent with a replacement policy"""
        is2x, body = wire_parts(t)
        if not is2x:
            return True
        if self.raises or not (20 <= self.st <= 29):
            return False                 # 2x on the wire although the handler gave none
        b = self.returned
        if b is None:
            b = b""
        if isinstance(b, bytes):
            want = [b]
        elif self.bk == 5:
            want = [b.encode("utf-8", "surrogateescape"), b.encode("utf-8", "replace"),
                    b.encode("utf-8", "ignore"), b.encode("utf-8", "backslashreplace")]
        else:
            want = [b.encode("utf-8")]
        got = body.concrete_if_plain() if len(body) else b""
        for w in want:
            if bytes_equal(got, w):
                return True
        return False

    def __call__(self, request):
        self.calls += 1
        if not self.is_async:
            return self._outcome()

        async def later():
            return self._outcome()
        return later()

    async def handle_upload(self, request):
        self.calls += 1
        return self._outcome()


STS = [10, 20, 29, 30, 44, 51, 59, 60, 69]


def sync_outcome(st: int, mc: int, bk: int, raises: bool, ec: int) -> bool:
    """
    pre: 0 <= st < len(STS) and 0 <= bk <= 5
    pre: is_meta_char(mc) and is_scalar(ec)
    post: _
    """
    h = _H(False, raises, STS[st], mc, bk, ec)
    p, t, loop = make(h)
    p.data_received(b"gemini://h/x\r\n")
    loop.run_ready()
    return V(h.calls == 1 and well_formed(t) and h.faithful(t))


# events after the request line: 0 late read, 1 timer expiry (t=30), 2 task completion, 3 peer disconnect
def _events(p, t, loop, evs):
    lost = False
    for e in evs:
        if e == 0:
            if not t.closed and not lost:
                p.data_received(b"junk")
        elif e == 1:
            loop.advance(31.0)
        elif e == 2:
            loop.run_ready()
        elif e == 3:
            if not lost:
                p.connection_lost(None)
                lost = True
    return lost


def _async_outcome(st, mc, bk, raises, ec, e1, e2, e3, up):
    # (contract on the partitioned wrappers)
    h = _H(True, raises, [20, 51][st], mc, [0, 2, 5][bk], ec)
    p, t, loop = make(h, None, h if up else None)
    if up:
        p.data_received(mk(b"titan://h/f;size=3\r\nabc"))
    else:
        p.data_received(b"gemini://h/x\r\n")
    before = len(t.events)
    lost_at = None
    evs = [e1, e2, e3]
    lost = False
    for i, e in enumerate(evs):
        n0 = len(t.events)
        l2 = _events(p, t, loop, [e]) if not lost else False
        if lost and len(t.events) != n0:
            return V(False)            # something written after the peer had gone
        if e == 3 and not lost:
            lost = True
            lost_at = len(t.events)
    if not lost:
        loop.run_ready()               # the task eventually completes
        return V(h.calls == 1 and well_formed(t) and h.faithful(t))
    # peer disconnected at some point: whatever was written before must be a whole
    # response or nothing, and nothing after
    if len(t.events) != lost_at:
        return V(False)
    data, closes, late = wire_response(t)
    if late:
        return V(False)
    if len(data) == 0:
        return V(True)
    return V(well_formed(t) and h.faithful(t))


def async_first_late(st: int, mc: int, bk: int, raises: bool, ec: int, e2: int, e3: int, up: bool) -> bool:
    """
    pre: 0 <= st <= 1 and 0 <= bk <= 2
    pre: EV3 or e3 == 2
    pre: is_meta_char(mc) and is_scalar(ec)
    pre: 0 <= e2 <= 3 and 0 <= e3 <= 3
    post: _
    """
    return _async_outcome(st, mc, bk, raises, ec, 0, e2, e3, up)


def async_first_timer(st: int, mc: int, bk: int, raises: bool, ec: int, e2: int, e3: int, up: bool) -> bool:
    """
    pre: 0 <= st <= 1 and 0 <= bk <= 2
    pre: EV3 or e3 == 2
    pre: is_meta_char(mc) and is_scalar(ec)
    pre: 0 <= e2 <= 3 and 0 <= e3 <= 3
    post: _
    """
    return _async_outcome(st, mc, bk, raises, ec, 1, e2, e3, up)


def async_first_task(st: int, mc: int, bk: int, raises: bool, ec: int, e2: int, e3: int, up: bool) -> bool:
    """
    pre: 0 <= st <= 1 and 0 <= bk <= 2
    pre: EV3 or e3 == 2
    pre: is_meta_char(mc) and is_scalar(ec)
    pre: 0 <= e2 <= 3 and 0 <= e3 <= 3
    post: _
    """
    return _async_outcome(st, mc, bk, raises, ec, 2, e2, e3, up)


def async_first_lost(st: int, mc: int, bk: int, raises: bool, ec: int, e2: int, e3: int, up: bool) -> bool:
    """
    pre: 0 <= st <= 1 and 0 <= bk <= 2
    pre: EV3 or e3 == 2
    pre: is_meta_char(mc) and is_scalar(ec)
    pre: 0 <= e2 <= 3 and 0 <= e3 <= 3
    post: _
    """
    return _async_outcome(st, mc, bk, raises, ec, 3, e2, e3, up)


ECHO = [b"gemini://", b"gemini://h", b"gemini://h/", b"gemini:/", b"http://h/", b"gemini://u@h/", b"gemini://h/#",
        b"titan://h/f;size=", b"titan://h/f;siz", b"titan://", b""]


def _echo_bytes(sk, b, up):
    # (contract on the partitioned wrappers)
    h = _H(False, False, 20, 0x61, 2, 0x61)
    p, t, loop = make(h, None, h if up else None)
    p.data_received(mk(ECHO[sk], b, b"\r\n"))
    loop.run_ready()
    if up and not t.closed and not t.events and ECHO[sk].startswith(b"titan://"):
        return True                      # a valid titan line still waiting for its content: nothing to say yet
    return V(well_formed(t))


def echo_bytes_a(sk: int, b: bytes, up: bool) -> bool:
    """
    pre: 0 <= sk <= 3
    pre: 1 <= len(b) <= NB
    post: _
    """
    return _echo_bytes(sk, b, up)


def echo_bytes_b(sk: int, b: bytes, up: bool) -> bool:
    """
    pre: 4 <= sk <= 6
    pre: 1 <= len(b) <= NB
    post: _
    """
    return _echo_bytes(sk, b, up)


def echo_bytes_c(sk: int, b: bytes, up: bool) -> bool:
    """
    pre: 7 <= sk <= 10
    pre: 1 <= len(b) <= NB
    post: _
    """
    return _echo_bytes(sk, b, up)


LONG = [("gemini:///", ""), ("http://h/", ""), ("gemini://u@h/", ""), ("gemini://h/", "#f"), ("titan://h/", ""),
        ("titan://h/", ";size=x"), ("gemini://h:99999/", ""), ("//h/", ""), ("gemini://[::1/", "")]


def echo_long(sk: int, n: int, up: bool) -> bool:
    """
    pre: 0 <= sk < len(LONG)
    pre: 0 <= n <= 2
    post: _
    """
    # the echoed line is as long as a request line may be (concrete lengths: str formatting of a
    # symbolic-length string is outside the engine's reach)
    h = _H(False, False, 20, 0x61, 2, 0x61)
    p, t, loop = make(h, None, h if up else None)
    pre, suf = LONG[sk]
    size = [0, 960, 1022][n]
    pad = size - len(pre) - len(suf)
    if pad < 0:
        pad = 0
    line = (pre + "a" * pad + suf).encode()
    p.data_received(line + b"\r\n")
    loop.run_ready()
    return V(well_formed(t))


PADS = ["a", "\u00e9", "\u20ac", "\U0001f600"]          # 1-, 2-, 3- and 4-byte characters
NCH = [0, 255, 256, 341, 342, 511, 512, 1020, 1023, 1024, 1025, 3000]


def long_meta(src: int, wi: int, ni: int, up: bool) -> bool:
    """
    pre: 0 <= src <= 4 and 0 <= wi < len(PADS) and 0 <= ni < len(NCH)
    post: _
    """
    # metas built from long texts of multi-byte characters, from every source a meta can come from: a handler's own
    # meta, the text of a handler / upload-handler / middleware exception, and the echo of a refused request line
    # (concrete lengths around the places where 1024 characters and 1024 bytes differ)
    text = PADS[wi] * NCH[ni]

    class _Hm:
        calls = 0

        def __call__(self, request):
            if src == 0:
                return GeminiResponse(status=51, meta=text)
            raise HErr(text)

        async def handle_upload(self, request):
            raise HErr(text)

    class _M:
        async def process_request(self, url, ip, fp=None):
            if src == 2:
                raise HErr(text)
            return True, None

    h = _Hm()
    p, t, loop = make(h, _M() if src == 2 else None, h if (up or src == 3) else None)
    if src == 3:
        p.data_received(b"titan://h/f;size=1;mime=text/plain\r\nX")
    elif src == 4:
        line = ("titan://h/f;size=" + text).encode("utf-8")
        if len(line) + 2 > 1024:
            line = ("titan://h/f;size=" + PADS[wi] * ((1000 - 17) // len(PADS[wi].encode("utf-8")))).encode("utf-8")
        p.data_received(line + b"\r\n")
    else:
        p.data_received(b"gemini://h/x\r\n")
    loop.run_ready()
    return V(well_formed(t))


class _MW:
    def __init__(self, kind, ec):
        self.kind, self.ec = kind, ec

    async def process_request(self, url, ip, fp=None):
        if self.kind == 0:
            return True, None
        if self.kind == 1:
            return False, "53 Access denied\r\n"
        if self.kind == 2:
            raise HErr("mw" + chr(self.ec))
        raise AssertionError("unreachable")


def middleware_outcome(kind: int, ec: int, raises: bool, st: int) -> bool:
    """
    pre: 0 <= kind <= 2 and is_scalar(ec) and 0 <= st < len(STS)
    post: _
    """
    h = _H(False, raises, STS[st], 0x61, 2, ec)
    p, t, loop = make(h, _MW(kind, ec))
    p.data_received(b"gemini://h/x\r\n")
    loop.run_ready()
    if kind != 0 and h.calls:
        return V(False)
    return V(well_formed(t))


def oversize(n: int, k: int, crlf: bool, titan: bool, up: bool) -> bool:
    """
    pre: 1000 <= n <= 3000
    pre: 0 <= k <= n + 30
    post: _
    """
    h = _H(False, False, 20, 0x61, 2, 0x61)
    p, t, loop = make(h, None, h if up else None)
    parts = [b"titan://h/" if titan else b"gemini://h/", Fill(n)]
    if titan:
        parts.append(b";size=0")
    if crlf:
        parts.append(b"\r\n")
    data = mk(*parts)
    if k > len(data):
        k = len(data)
    deliver(p, data, [k], t)
    loop.run_ready()
    line = 11 + n + (7 if titan else 0) - (1 if titan else 0)
    triggered = crlf or (len(data) > 1024)
    if not triggered:
        return V(well_formed(t, expect_response=False) and t.closed == 0)
    return V(well_formed(t))


# ---- the third trigger of the property: the client stalls past the request timeout ---------------
SIZES = [1, 7, 1024, 70000]
SIZE_TXT = [b"1", b"7", b"1024", b"70000"]


def stall(kind: int, n: int, k: int, sk: int, late: int) -> bool:
    """
    pre: 0 <= kind <= 2 and 0 <= n <= 1100 and 0 <= k <= n + 40 and 0 <= sk < 4 and 0 <= late <= 1
    post: _
    """
    # kind 0: silent inside a gemini line; 1: silent inside a titan line; 2: titan line complete, silent inside the body
    h = _H(False, False, 20, 0x61, 2, 0x61)
    p, t, loop = make(h, None, h)
    if kind == 0:
        data = mk(b"gemini://h/", Fill(n), b"\r\n")
    elif kind == 1:
        data = mk(b"titan://h/f", Fill(n), b";size=5\r\n")
    else:
        data = mk(b"titan://h/f;size=", SIZE_TXT[sk], b"\r\n", Fill(SIZES[sk]))
    total = len(data)
    if k >= total:
        k = total - 1                     # at least the last byte never arrives
    if kind == 2:
        line = 17 + len(SIZE_TXT[sk]) + 2
        if k < line:
            k = line                      # the request line itself is complete
    first, _ = data.cut(k)
    if first:
        p.data_received(first)
    loop.run_ready()
    loop.advance(30)                      # the request timeout passes in silence
    loop.run_ready()
    if late and not t.closed:
        p.data_received(mk(b"x"))
        loop.run_ready()
    return V(h.calls == 0 and well_formed(t))


# ---- the same outcomes behind the PyOpenSSL wrapper ------------------------------------------
def tls_wrap(st: int, mc: int, bk: int, raises: bool, ec: int, flights: int, coalesce: bool, is_async: bool) -> bool:
    """
    pre: 0 <= st < len(STS) and 0 <= bk <= 5
    pre: is_meta_char(mc) and is_scalar(ec)
    pre: 1 <= flights <= 2
    post: _
    """
    from vf.server import well_formed_data
    from vf.tls import StubTLSConn
    from vf.tlsserver import feed, make_tls
    h = _H(is_async, raises, STS[st], mc, bk, ec)
    conn = StubTLSConn(flights=flights)
    outer, tcp, loop, conn, made = make_tls(h, None, None, conn)
    for i in range(flights - 1):
        feed(outer, tcp, [("hs",)])
        if made:
            return V(False)                 # inner protocol before the handshake has completed
    if coalesce:
        feed(outer, tcp, [("hs",), ("app", b"gemini://h/x\r\n")])     # request rides with the last handshake flight
    else:
        feed(outer, tcp, [("hs",)])
        feed(outer, tcp, [("app", b"gemini://h/x\r\n")])
    loop.run_ready()
    plain, close_seen, after, all_out = conn.delivered(tcp)
    if h.calls != 1 or after != 0 or tcp.closed < 1 or not close_seen:
        return V(False)
    return V(well_formed_data(plain, 1, 0))


def tls_garbage(kind: int, flights: int) -> bool:
    """
    pre: 0 <= kind <= 2 and 1 <= flights <= 2
    post: _
    """
    # bytes that are not a TLS handshake (or a broken one) never reach a handler nor elicit a Gemini response
    from vf.tls import StubTLSConn
    from vf.tlsserver import feed, make_tls
    h = _H(False, False, 20, 0x61, 2, 0x61)
    conn = StubTLSConn(flights=flights, fail_handshake=(kind == 2))
    outer, tcp, loop, conn, made = make_tls(h, None, None, conn)
    first = [("app", b"gemini://h/x\r\n")] if kind == 0 else [("badhs",)] if kind == 1 else [("hs",)]
    feed(outer, tcp, first)
    feed(outer, tcp, [("app", b"gemini://h/x\r\n")])
    loop.run_ready()
    plain, close_seen, after, all_out = conn.delivered(tcp)
    return V(h.calls == 0 and not made and len(plain) == 0 and tcp.closed >= 1)


# ---- built-in handlers behind the real router, as start_server assembles them ------------------
NASTY = ["plain.gmi", "sp ace.gmi", "new\nline.gmi", "=> gemini://evil/ x", "cr\rname", "n\udc80.gmi", "\u00e9.gmi", "x" * 200 + ".gmi"]
REQ_PATHS = ["/", "/d/", "/d", "/NAME", "/d/NAME", "/static/", "/static/d/", "/static/NAME", "/nope", "/static/nope", ""]


def compose(ni: int, pi: int, listing: bool, routing: int) -> bool:
    """
    pre: 0 <= ni < len(NASTY) and 0 <= pi < len(REQ_PATHS) and 0 <= routing <= 2
    post: _
    """
    import pathlib
    from urllib.parse import quote
    from nauyaca.server.config import ServerConfig
    from nauyaca.server.location import HandlerType, LocationConfig
    from vf.capture import capture, inner_protocol
    from vf.modelfs import FILE, ModelFS
    from vf.stubs import FakeTransport
    name = NASTY[ni]
    fs = ModelFS(cwd="/srv")
    fs.mkdirs("/srv/root/d", "/tmp")
    fs.add("/srv/root/" + name, FILE, b"# page\n")
    fs.add("/srv/root/d/" + name, FILE, b"\xff\xfe not utf-8")
    fs.add("/srv/root/d/other.gmi", FILE, b"ok")
    fs.install()
    try:
        locs = None
        if routing == 1:
            locs = [LocationConfig(prefix="/static/", handler_type=HandlerType.STATIC, document_root=pathlib.Path("/srv/root"),
                                   enable_directory_listing=listing)]
        elif routing == 2:
            locs = [LocationConfig(prefix="/static/", handler_type=HandlerType.STATIC, document_root=pathlib.Path("/srv/root/d"),
                                   enable_directory_listing=listing),
                    LocationConfig(prefix="/", handler_type=HandlerType.STATIC, document_root=pathlib.Path("/srv/root"),
                                   enable_directory_listing=listing)]
        cfg = ServerConfig(document_root=pathlib.Path("/srv/root"), locations=locs, enable_rate_limiting=False)
        cap = capture(cfg, enable_directory_listing=listing, enable_rate_limiting=False)
        p = inner_protocol(cap)
        t = FakeTransport()
        p.connection_made(t)
        try:
            enc = quote(name, safe="")
        except UnicodeEncodeError:
            enc = "undecodable"
        path = REQ_PATHS[pi].replace("NAME", enc)
        p.data_received(("gemini://h" + path).encode("utf-8") + b"\r\n")
        cap["loop"].run_ready()
    finally:
        fs.uninstall()
    return V(well_formed(t))


META = {
    "files": ["src/nauyaca/server/protocol.py", "src/nauyaca/protocol/request.py", "src/nauyaca/utils/url.py",
              "src/nauyaca/protocol/response.py"],
    "level": "model_checking",
    "explanation": ("Bounded symbolic execution of the real GeminiServerProtocol state machine on a recording transport "
                    "and a hand-driven loop. An independent recogniser over the transport log decides 'exactly one "
                    "well-formed response, then close, nothing after'. Handler status, meta character, exception text "
                    "character, request bytes, lengths, cut offsets and the order of late read / timer / task completion / "
                    "disconnect are solver variables."),
    "assumptions": [
        "handler and middleware *return values* obey their API contract (status 10..69, meta without CR/LF, body only with 2x, "
        "middleware rejection text is a complete header line); their exceptions are unconstrained",
        "FakeTransport: asyncio stops reading after close(); writes after close() are dropped by asyncio and counted as failures here",
        "MiniLoop: tasks and timers run only when the harness schedules them",
        "SymValueError / HErr: exception text produced at Python level",
    ],
    "trusted": ["CrossHair 0.0.110 / z3 5.1", "asyncio transport contract as documented"],
}

F_PROTO = ["GeminiServerProtocol.connection_made", "data_received", "_handle_gemini_request", "_route_request",
           "_handle_async_handler_result", "_handle_middleware_result", "_handle_titan_url", "_process_titan_upload",
           "_handle_titan_upload_result", "_send_response", "_send_error_response", "_handle_timeout", "connection_lost"]
STUBS = ["FakeTransport", "MiniLoop", "SymBuf", "NoLog", "FixedClock", "SymValueError"]

OBLIGATIONS = [
    Ob("sync_outcome", sync_outcome, quick=240, thorough=900,
       symbolic="returned status (symbolic index into 10 20 29 30 44 51 59 60 69: int->str formatting is enumerated by the engine), meta character (any scalar except CR/LF), body kind 0..4, raise flag, "
                "exception text character (any Unicode scalar value incl. CR/LF)",
       functions=F_PROTO, stubs=STUBS),
    Ob("async_first_late", async_first_late, quick=500, thorough=1500,
       symbolic="async handler / upload handler outcome: status in {20,51}, meta character (any scalar except CR/LF), body "
                "None/'x', raise flag, exception text character (any scalar); first event = a late read, then 2 more events each in "
                "{late read, timer t=31, task completion, disconnect}; gemini or titan request",
       functions=F_PROTO, stubs=STUBS, outside=["more than 3 post-request events"]),
    Ob("async_first_timer", async_first_timer, quick=500, thorough=1500,
       symbolic="async handler / upload handler outcome: status in {20,51}, meta character (any scalar except CR/LF), body "
                "None/'x', raise flag, exception text character (any scalar); first event = the (cancelled) timer deadline passing, then 2 more events each in "
                "{late read, timer t=31, task completion, disconnect}; gemini or titan request",
       functions=F_PROTO, stubs=STUBS, outside=["more than 3 post-request events"]),
    Ob("async_first_task", async_first_task, quick=500, thorough=1500,
       symbolic="async handler / upload handler outcome: status in {20,51}, meta character (any scalar except CR/LF), body "
                "None/'x', raise flag, exception text character (any scalar); first event = the handler task completing, then 2 more events each in "
                "{late read, timer t=31, task completion, disconnect}; gemini or titan request",
       functions=F_PROTO, stubs=STUBS, outside=["more than 3 post-request events"]),
    Ob("async_first_lost", async_first_lost, quick=500, thorough=1500,
       symbolic="async handler / upload handler outcome: status in {20,51}, meta character (any scalar except CR/LF), body "
                "None/'x', raise flag, exception text character (any scalar); first event = the peer disconnecting, then 2 more events each in "
                "{late read, timer t=31, task completion, disconnect}; gemini or titan request",
       functions=F_PROTO, stubs=STUBS, outside=["more than 3 post-request events"]),
    Ob("echo_bytes_a", echo_bytes_a, quick=400, thorough=1800,
       symbolic="1 (quick) / 1..2 (thorough) unconstrained bytes appended to request-line skeletons: gemini:// prefixes without path; uploads flag",
       functions=F_PROTO + ["parse_url", "validate_url", "TitanRequest.from_line"], stubs=STUBS),
    Ob("echo_bytes_b", echo_bytes_b, quick=400, thorough=1800,
       symbolic="1 (quick) / 1..2 (thorough) unconstrained bytes appended to request-line skeletons: other scheme, user-info, fragment; uploads flag",
       functions=F_PROTO + ["parse_url", "validate_url", "TitanRequest.from_line"], stubs=STUBS),
    Ob("echo_bytes_c", echo_bytes_c, quick=400, thorough=1800,
       symbolic="1 (quick) / 1..2 (thorough) unconstrained bytes appended to request-line skeletons: titan skeletons and the empty line; uploads flag",
       functions=F_PROTO + ["parse_url", "validate_url", "TitanRequest.from_line"], stubs=STUBS),
    Ob("echo_long", echo_long, quick=120, thorough=300,
       symbolic="skeleton index 0..8, length class 0..2 (short / 960 / 1022 bytes), uploads flag",
       functions=F_PROTO + ["parse_url"], stubs=STUBS,
       note="discrete: concrete long lines, the engine forks on the indices"),
    Ob("long_meta", long_meta, quick=200, thorough=400,
       symbolic="source of the meta (handler meta / handler exception / middleware exception / upload-handler exception / echoed "
                "Titan size parameter), width of the padding character (1-4 bytes), 12 lengths around 1024 characters and 1024 bytes",
       functions=F_PROTO, stubs=STUBS, note="discrete: concrete long texts, the engine forks on the indices"),
    Ob("middleware_outcome", middleware_outcome, quick=240, thorough=900,
       symbolic="middleware outcome (allow / deny / raise with symbolic text), handler outcome, status",
       functions=F_PROTO, stubs=STUBS),
    Ob("stall", stall, quick=400, thorough=1200,
       symbolic="where the client goes silent: inside a gemini line, inside a titan line, or inside a titan body of declared size "
                "1/7/1024/70000 (filler length 0..1100, stall offset), then the request timeout elapses (virtual clock)",
       functions=F_PROTO, stubs=STUBS),
    Ob("tls_wrap", tls_wrap, quick=500, thorough=1500,
       symbolic="sync/async handler outcome as in sync_outcome, behind TLSServerProtocol + TLSTransportWrapper over StubTLSConn: handshake "
                "needing 1..2 flights, request coalesced with the final flight or in its own read",
       functions=F_PROTO + ["TLSServerProtocol.data_received", "_do_handshake", "_initialize_inner_protocol",
                            "_process_pending_after_handshake", "_flush_outgoing", "TLSTransportWrapper.write/close"],
       stubs=STUBS + ["StubTLSConn"]),
    Ob("tls_garbage", tls_garbage, quick=120, thorough=300,
       symbolic="what arrives instead of a handshake (application bytes / broken handshake record / handshake that fails), flights",
       functions=["TLSServerProtocol.data_received", "_do_handshake", "_close_with_error"], stubs=["StubTLSConn", "FakeTransport"]),
    Ob("compose", compose, quick=1000, thorough=2400,
       symbolic="file name (8 incl. newline, CR, '=> ' link syntax, undecodable, 200 characters), request path (11), listing flag, "
                "routing configuration (single root / location without catch-all / locations with catch-all) assembled by the real start_server",
       functions=F_PROTO + ["start_server (assembly)", "default_404_handler", "Router.route", "StaticFileHandler.handle",
                            "generate_directory_listing", "error_404"],
       stubs=STUBS + ["ModelFS", "ServerCapture"], note="discrete dimensions"),
    Ob("oversize", oversize, quick=240, thorough=900,
       symbolic="line filler 1000..3000, cut offset, CRLF present, gemini/titan, uploads flag",
       functions=F_PROTO, stubs=STUBS),
]
