"""C05 - certificate rules are applied to the resource that is actually served"""
import nauyaca.protocol.request  # noqa: F401
from nauyaca.protocol.request import GeminiRequest
from nauyaca.server.config import ServerConfig
from nauyaca.server.handler import StaticFileHandler
from nauyaca.server.middleware import CertificateAuth, CertificateAuthConfig, CertificateAuthPathRule

import vf.server  # noqa: F401
from vf import Ob, V, pick
from vf.modelfs import FILE, ModelFS
from vf.stubs import drive

CAP = "/srv/cap"
FILES = {"/pub/p": b"PUB-p", "/sec/s": b"SEC-s", "/sec/pub/q": b"SECPUB-q", "/sec/index.gmi": b"SEC-index", "/sec/pub/index.gmi": b"SECPUB-index",
         "/index.gmi": b"ROOT-index", "/secret.gmi": b"SECRET-GMI"}
BY_CONTENT = {v: k for k, v in FILES.items()}
PFX = ["/", "/sec", "/sec/", "/sec/pub/", "/pub/"]
ALLOWS = [None, set(), {"sha256:" + "a" * 64}, {"sha256:" + "b" * 64}]
FPRINT = [None, "sha256:" + "a" * 64, "sha256:" + "b" * 64]
SEG = ["sec", "pub", "s", "p", "q", "..", "", "%2e%2e", ".", "%73ec", "index.gmi", "secret.gmi", ".%2e", "%2E%2E"]
NSEG = pick(10, len(SEG))
FULL = pick(False, True)


def _fs():
    fs = ModelFS(cwd="/srv")
    fs.mkdirs("/srv/cap/pub", "/srv/cap/sec/pub", "/tmp")
    for rel, content in FILES.items():
        fs.add(CAP + rel, FILE, content)
    return fs


_H = None


def _handler():
    global _H
    if _H is None:
        fs = _fs()
        fs.install()
        try:
            _H = StaticFileHandler(CAP)
        finally:
            fs.uninstall()
    return _H


_handler()


def _admits(rule, fp):
    pfx, req, allow = rule
    if req and fp is None:
        return False
    if allow is not None:
        return fp is not None and fp in allow
    return True


def _policy(rules, canonical, fp):
    """reference: first rule whose prefix covers the canonical location of the delivered file"""
    for r in rules:
        if canonical.startswith(r[0]):
            return _admits(r, fp)
    return True


def _serve(rules, path, query, fp):
    """middleware then (if admitted) handler, the way the protocol chains them"""
    url = "gemini://h" + path + ("?x=1" if query else "")
    try:
        req = GeminiRequest.from_line(url)
    except ValueError:
        return None, None
    mw = CertificateAuth(CertificateAuthConfig(path_rules=[
        CertificateAuthPathRule(prefix=p, require_cert=rq, allowed_fingerprints=al) for (p, rq, al) in rules]))
    (allow, resp), exc = drive(mw.process_request(req.normalized_url, "192.0.2.1", fp))
    if exc is not None:
        return ("error", "40"), None
    if not allow:
        return ("denied", resp), None
    fs = _fs()
    fs.install()
    try:
        try:
            r = _handler().handle(req)
        except Exception:  # noqa: BLE001
            return ("error", "40"), None
    finally:
        fs.uninstall()
    return ("served", r), req


def _enforce(nr, r1p, r1q, r1a, r2p, r2q, r2a, s1, s2, s3, nseg, slash, query, fpi):
    rules = [(PFX[r1p], r1q, ALLOWS[r1a]), (PFX[r2p], r2q, ALLOWS[r2a])][:nr]
    segs = [SEG[s1], SEG[s2], SEG[s3]][:nseg]
    path = "/" + "/".join(segs) + ("/" if slash else "")
    fp = FPRINT[fpi]
    out, req = _serve(rules, path, query, fp)
    if out is None:
        return True
    kind, val = out
    if kind == "served":
        r = val
        if r.status != 20:
            return r.body is None
        body = r.body.encode("utf-8") if isinstance(r.body, str) else r.body
        canonical = BY_CONTENT.get(body)
        if canonical is None:
            return False                       # 20 with something that is not a capsule file
        return _policy(rules, canonical, fp)   # delivered => the covering rule admits the certificate
    if kind == "denied":
        want = "60" if fp is None else "61"
        return isinstance(val, str) and val.startswith(want + " ") and val.endswith("\r\n") and not any(
            c.decode() in val for c in FILES.values())
    return True


def _spelling(rp, s1, s2, s3, nseg, slash, query):
    # the rule never admits (certificate required, none presented): whatever is delivered must lie outside its prefix
    return _enforce(1, rp, True, 0, 0, False, 0, s1, s2, s3, nseg, slash, query, 0)


def spelling2(rp: int, s1: int, s2: int, slash: bool, query: bool) -> bool:
    """
    pre: 0 <= rp < 5 and 0 <= s1 < NSEG and 0 <= s2 < NSEG
    post: _
    """
    return V(_spelling(rp, s1, s2, 0, 2, slash, query))


def spelling3_a(rp: int, s1: int, s2: int, s3: int) -> bool:
    """
    pre: 1 <= rp < 5 and 0 <= s1 <= 2 and 0 <= s2 < NSEG and 0 <= s3 < NSEG
    post: _
    """
    return V(_spelling(rp, s1, s2, s3, 3, False, False))


def spelling3_b(rp: int, s1: int, s2: int, s3: int) -> bool:
    """
    pre: 1 <= rp < 5 and 3 <= s1 <= 5 and 0 <= s2 < NSEG and 0 <= s3 < NSEG
    post: _
    """
    return V(_spelling(rp, s1, s2, s3, 3, False, False))


def spelling3_c(rp: int, s1: int, s2: int, s3: int) -> bool:
    """
    pre: 1 <= rp < 5 and 6 <= s1 < NSEG and 0 <= s2 < NSEG and 0 <= s3 < NSEG
    post: _
    """
    return V(_spelling(rp, s1, s2, s3, 3, False, False))


TARGETS = [("pub", "p", 2), ("sec", "s", 2), ("sec", "pub", 3), ("sec", "", 2), ("sec", "", 1), ("sec", "pub", 2), ("", "", 1), ("secret.gmi", "", 1)]


def admit(rp: int, rq: bool, ra: int, fpi: int, ti: int, slash: bool) -> bool:
    """
    pre: 0 <= rp < 5 and 0 <= ra < 4 and 0 <= fpi < 3 and 0 <= ti < len(TARGETS)
    post: _
    """
    # every admission switch against canonical spellings of every capsule resource (files, directories with and without slash)
    a, b, n = TARGETS[ti]
    s1, s2 = SEG.index(a), SEG.index(b)
    s3 = SEG.index("q")
    return V(_enforce(1, rp, rq, ra, 0, False, 0, s1, s2, s3, n, slash, False, fpi))


def _nested(r1p, r2p, r1q, r2q, r1a, r2a, ti, fpi):
    # (contract on the partitioned wrappers)
    # two rules (public-inside-protected, overlapping prefixes): first match wins
    a, b, n = TARGETS[ti]
    return V(_enforce(2, r1p, r1q, r1a, r2p, r2q, r2a, SEG.index(a), SEG.index(b), SEG.index("q"), n, False, False, fpi))


def nested_a(r1p: int, r2p: int, r1q: bool, r2q: bool, r1a: int, r2a: int, ti: int, fpi: int) -> bool:
    """
    pre: 1 <= r1p <= 2 and 0 <= r2p < 5 and r1p != r2p
    pre: 0 <= r1a < 4 and 0 <= r2a < 4 and 0 <= fpi < 3 and 0 <= ti < 6
    pre: r1a != 3 and (r2a == 0 or r2a == 2) and (r2q or FULL)
    post: _
    """
    return _nested(r1p, r2p, r1q, r2q, r1a, r2a, ti, fpi)


def nested_b(r1p: int, r2p: int, r1q: bool, r2q: bool, r1a: int, r2a: int, ti: int, fpi: int) -> bool:
    """
    pre: 3 <= r1p <= 4 and 0 <= r2p < 5 and r1p != r2p
    pre: 0 <= r1a < 4 and 0 <= r2a < 4 and 0 <= fpi < 3 and 0 <= ti < 6
    pre: r1a != 3 and (r2a == 0 or r2a == 2) and (r2q or FULL)
    post: _
    """
    return _nested(r1p, r2p, r1q, r2q, r1a, r2a, ti, fpi)


FPLISTS = ["missing", [], ["sha256:" + "a" * 64], ["sha256:" + "a" * 64, "sha256:" + "b" * 64]]
REQS = ["missing", True, False]


def config(p1: int, q1: int, a1: int, p2: int, q2: int, a2: int, n: int) -> bool:
    """
    pre: 0 <= p1 < 5 and 0 <= p2 < 5 and 0 <= q1 < 3 and 0 <= q2 < 3 and 0 <= a1 < 4 and 0 <= a2 < 4
    pre: 0 <= n <= 2
    pre: p2 == 1 and q2 <= 1 and a2 <= 1
    post: _
    """
    def entry(p, q, a):
        d = {"prefix": PFX[p]}
        if REQS[q] != "missing":
            d["require_cert"] = REQS[q]
        if FPLISTS[a] != "missing":
            d["allowed_fingerprints"] = list(FPLISTS[a])
        return d
    paths = [entry(p1, q1, a1), entry(p2, q2, a2)][:n]
    import pathlib
    cfg = ServerConfig(document_root=pathlib.Path("/usr"), certificate_auth_paths=paths if n else None)
    got = cfg.get_certificate_auth_config()
    if n == 0:
        return V(got is None)
    if got is None or len(got.path_rules) != n:
        return V(False)
    for rule, (p, q, a) in zip(got.path_rules, [(p1, q1, a1), (p2, q2, a2)][:n]):
        want_req = REQS[q] is True
        want_allow = None if FPLISTS[a] == "missing" else set(FPLISTS[a])
        if rule.prefix != PFX[p] or bool(rule.require_cert) != want_req:
            return V(False)
        if rule.allowed_fingerprints != want_allow:
            return V(False)               # what is written is what is enforced: an empty list admits nobody
    return V(True)


def config_enforced(a1: int, fpi: int) -> bool:
    """
    pre: 0 <= a1 < 4 and 0 <= fpi < 3
    post: _
    """
    # the TOML-shaped rule through ServerConfig into the running middleware, then a request
    import pathlib
    d = {"prefix": "/sec/", "require_cert": False}
    if FPLISTS[a1] != "missing":
        d["allowed_fingerprints"] = list(FPLISTS[a1])
    cfg = ServerConfig(document_root=pathlib.Path("/usr"), certificate_auth_paths=[d])
    mw = CertificateAuth(cfg.get_certificate_auth_config())
    (allow, resp), exc = drive(mw.process_request("gemini://h/sec/s", "192.0.2.1", FPRINT[fpi]))
    if exc is not None:
        return V(False)
    fp = FPRINT[fpi]
    want = True if FPLISTS[a1] == "missing" else (fp is not None and fp in FPLISTS[a1])
    return V(allow == want)


META = {
    "files": ["src/nauyaca/server/middleware.py", "src/nauyaca/server/handler.py", "src/nauyaca/server/config.py",
              "src/nauyaca/server/protocol.py", "src/nauyaca/security/pyopenssl_tls.py", "src/nauyaca/security/certificates.py"],
    "level": "model_checking",
    "explanation": ("Bounded symbolic execution of the real CertificateAuth middleware chained with the real StaticFileHandler on a "
                    "model capsule: rule prefixes, require_cert flags, allow-lists (absent / empty / {A} / {B}), the spelling of the "
                    "request path (up to 3 segments from 12 names incl. '.', '..', empty, pct-encoded), trailing slash, query and "
                    "the presented fingerprint are solver-chosen; whenever a capsule file's sentinel is delivered, the reference "
                    "policy evaluated on that file's canonical location must admit the certificate."),
    "assumptions": [
        "capsule without symlinks (a middleware that only sees the URL cannot know link targets: outside the claim)",
        "fingerprint extraction from the TLS layer is C04.args_*; real TLS on the PyOpenSSL backend is outside",
        "discrete dimensions; the engine's contribution is lazy case splitting and exhaustion",
    ],
    "trusted": ["CrossHair 0.0.110 / z3 5.1", "ModelFS (validated in C02)"],
}
# ---- the fingerprint the rules see is the fingerprint of the certificate THIS connection presented -----------------
_CERTS = []


def _client_certs():
    """real client certificates as PyOpenSSL hands them up: a member, an outsider whose self-signed certificate copies
    the member's issuer name and serial number (different key), another outsider copying only the subject, and an
    unrelated one"""
    if _CERTS:
        return _CERTS
    import datetime
    import hashlib
    from cryptography import x509
    from cryptography.hazmat.primitives import hashes, serialization
    from cryptography.hazmat.primitives.asymmetric import ec
    from cryptography.x509.oid import NameOID
    from OpenSSL import crypto

    def make(cn, serial):
        key = ec.generate_private_key(ec.SECP256R1())
        name = x509.Name([x509.NameAttribute(NameOID.COMMON_NAME, cn)])
        cert = (x509.CertificateBuilder().subject_name(name).issuer_name(name).public_key(key.public_key())
                .serial_number(serial).not_valid_before(datetime.datetime(2026, 1, 1))
                .not_valid_after(datetime.datetime(2036, 1, 1)).sign(key, hashes.SHA256()))
        der = cert.public_bytes(serialization.Encoding.DER)
        return crypto.load_certificate(crypto.FILETYPE_ASN1, der), "sha256:" + hashlib.sha256(der).hexdigest()
    _CERTS.extend([make("member", 4242), make("member", 4242), make("member", 7), make("stranger", 4242)])
    return _CERTS


_client_certs()                # built at import time, outside the engine
import nauyaca.security.certificates as _certmod  # noqa: E402
import nauyaca.security.pyopenssl_tls as _pyomod  # noqa: E402
from vf import ModuleState  # noqa: E402

_PYO_STATE = ModuleState(_pyomod)
_CERTMOD_STATE = ModuleState(_certmod)


class _Conn:
    def __init__(self, x):
        self.x = x

    def get_peer_certificate(self):
        return self.x


def peer_identity(i1: int, i2: int, i3: int, n: int) -> bool:
    """
    pre: 0 <= i1 <= 3 and 0 <= i2 <= 3 and 0 <= i3 <= 3 and 1 <= n <= 3
    post: _
    """
    # a sequence of connections on the PyOpenSSL backend, each presenting one of four real certificates: what reaches the
    # rules is the fingerprint of the certificate of that very connection, so only the member is admitted -- whatever
    # earlier connections presented (no memo keyed by anything an outsider can copy)
    import nauyaca.security.pyopenssl_tls as pyo
    from nauyaca.security.certificates import get_certificate_fingerprint
    _PYO_STATE.restore()
    _CERTMOD_STATE.restore()
    certs = _client_certs()
    member_fp = certs[0][1]
    ca = CertificateAuth(CertificateAuthConfig(path_rules=[
        CertificateAuthPathRule(prefix="/members/", require_cert=True, allowed_fingerprints={member_fp})]))
    for i in (i1, i2, i3)[:n]:
        x, truth = certs[i]
        got = pyo.get_peer_certificate_from_connection(_Conn(x))
        if got is None:
            return V(False)
        fp = get_certificate_fingerprint(pyo.x509_to_cryptography(got))
        if fp != truth:
            return V(False)
        (ok, resp), exc = drive(ca.process_request("gemini://h/members/x", "192.0.2.1", fp))
        if exc is not None or ok != (i == 0):
            return V(False)
        if not ok and not str(resp).startswith("61"):
            return V(False)
    return V(True)


FN = ["CertificateAuth._extract_path", "_find_matching_rule", "process_request", "StaticFileHandler.handle",
      "ServerConfig.get_certificate_auth_config", "GeminiRequest.from_line"]
OBLIGATIONS = [
    Ob("peer_identity", peer_identity, quick=120, thorough=300,
       symbolic="sequences of 1..3 connections, each presenting one of 4 real client certificates (member; same issuer+serial, other key; "
                "same subject; same serial) through the real PyOpenSSL -> cryptography conversion and fingerprint functions",
       functions=["get_peer_certificate_from_connection", "x509_to_cryptography", "get_certificate_fingerprint",
                  "CertificateAuth.process_request"], stubs=["connection object returning a real OpenSSL.crypto.X509"],
       note="discrete: the certificates are concrete (X.509 parsing is C code), the engine forks on the sequence"),
    Ob("spelling2", spelling2, quick=1000, thorough=3000,
       symbolic="a never-admitting rule on one of 5 prefixes; 2 path segments (10 quick / 14 thorough names incl. '.', '..', empty, "
                "pct-encoded), trailing slash, query", functions=FN, stubs=["ModelFS"]),
    Ob("spelling3_a", spelling3_a, quick=1000, thorough=3000,
       symbolic="never-admitting rule on 4 prefixes; 3 path segments, first in {sec, pub, s}", functions=FN, stubs=["ModelFS"]),
    Ob("spelling3_b", spelling3_b, quick=1000, thorough=3000,
       symbolic="never-admitting rule on 4 prefixes; 3 path segments, first in {p, q, '..'}", functions=FN, stubs=["ModelFS"]),
    Ob("spelling3_c", spelling3_c, quick=1000, thorough=3000,
       symbolic="never-admitting rule on 4 prefixes; 3 path segments, first in {'', %2e%2e, '.', %73ec, ...}", functions=FN, stubs=["ModelFS"]),
    Ob("admit", admit, quick=1000, thorough=3000,
       symbolic="rule prefix (5), require_cert, allow-list (absent / empty / {A} / {B}), presented fingerprint (none / A / B), "
                "8 canonical targets (files, directories with/without slash, root, prefix-sharing file), trailing slash",
       functions=FN, stubs=["ModelFS"]),
    Ob("nested_a", nested_a, quick=1000, thorough=3000,
       symbolic="2 rules (first prefix /sec or /sec/) with distinct prefixes (nested / overlapping), incl. a catch-all '/' after a stricter rule; admission switches of both, 6 canonical targets incl. directories requested without trailing slash, fingerprint",
       functions=FN, stubs=["ModelFS"]),
    Ob("nested_b", nested_b, quick=1000, thorough=3000,
       symbolic="2 rules (first prefix /sec/pub/ or /pub/) with distinct prefixes (nested / overlapping), incl. a catch-all '/' after a stricter rule; admission switches of both, 6 canonical targets incl. directories requested without trailing slash, fingerprint",
       functions=FN, stubs=["ModelFS"]),
    Ob("config", config, quick=300, thorough=900,
       symbolic="0..2 TOML-shaped rule dicts: prefix, require_cert (missing/true/false), allowed_fingerprints (missing/[]/[A]/[A,B])",
       functions=["ServerConfig.get_certificate_auth_config"]),
    Ob("config_enforced", config_enforced, quick=120, thorough=300,
       symbolic="allowed_fingerprints form, presented fingerprint", functions=["ServerConfig.get_certificate_auth_config", "CertificateAuth.process_request"]),
]
