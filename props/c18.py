"""C18 - the reverse proxy relays responses verbatim and contains upstream faults"""
import ssl as _ssl

import nauyaca.protocol.request  # noqa: F401
import nauyaca.client.session as cs
import nauyaca.server.protocol as sp
import nauyaca.server.proxy as px
from nauyaca.protocol.constants import MAX_RESPONSE_BODY_SIZE
from nauyaca.server.proxy import ProxyHandler

import asyncio as _asyncio

from vf import NoLog, Ob, V, bind, pick
from vf.server import find_crlf, make, well_formed, wire_response
from vf.stubs import FakeAsyncio, FakeTransport
from vf.symbuf import Fill, SymBuf, mk

px.logger = NoLog()
TIMEOUT = 7
CAP = MAX_RESPONSE_BODY_SIZE

STATUS = [b"10", b"20", b"29", b"31", b"44", b"51", b"62", b"69"]
METAS = [b"text/gemini", b"text/plain; charset=iso-8859-1", b"text/plain; charset=utf-16", b"text/plain; charset=bogus",
         b"application/octet-stream", b"", b"text/gemini; lang=en", b"TEXT/PLAIN;CHARSET=latin-1", b"gemini://other.example/next"]
BAD_HEADERS = [b"2 short\r\n", b"200 long\r\n", b"ab cd\r\n", b"99 out of range\r\n", b"\r\n", b"20\xff bad utf8\r\n", b" 20 x\r\n"]
REFUSE, TLSFAIL, CLOSE_EARLY, RESET, STALL = range(5)


class _Upstream:
    """scripted upstream: the connector hands the client's protocol a recording transport"""

    def __init__(self, loop, fault=None):
        self.loop, self.fault = loop, fault
        self.conns = []
        loop.connector = self.connect

    async def connect(self, factory, host, port, ssl, server_hostname):
        self.conns.append((host, port))
        if self.fault == REFUSE:
            raise ConnectionRefusedError(111, "Connection refused")
        if self.fault == TLSFAIL:
            raise _ssl.SSLError(1, "[SSL: WRONG_VERSION_NUMBER] wrong version number")
        t = FakeTransport(peer=(host, port))
        proto = factory()
        self.t, self.proto = t, proto
        proto.connection_made(t)
        return t, proto


def _setup(fault=None, ph=None, path=b"/doc?x=1"):
    if ph is None:
        ph = ProxyHandler("gemini://up.example:1970", prefix="/", strip_prefix=False, timeout=TIMEOUT)
    p, t, loop = make(ph.handle)
    bind(cs, _asyncio, FakeAsyncio(loop))      # client and server side share the hand-driven loop
    up = _Upstream(loop, fault)
    p.data_received(b"gemini://front.example" + path + b"\r\n")
    loop.run_ready()
    return ph, p, t, loop, up


def _feed_upstream(up, loop, stream, cut, ending):
    """deliver ``stream`` to the proxy's client protocol in two reads, then end the connection:
    ending 0 clean close, 1 reset, 2 silence until the location timeout"""
    pr = up.proto
    lost = False
    a, b = stream.cut(cut)
    for piece in (a, b):
        if piece and not lost and not up.t.closed:
            try:
                pr.data_received(piece)
            except Exception as e:  # noqa: BLE001  (asyncio: fatal error -> connection_lost(exc))
                pr.connection_lost(e)
                lost = True
            if up.t.closed and not lost:
                pr.connection_lost(None)
                lost = True
    if not lost:
        if ending == 0:
            pr.connection_lost(None)
        elif ending == 1:
            pr.connection_lost(ConnectionResetError("reset by peer"))
        else:
            loop.advance(TIMEOUT + 1)
    loop.run_ready()


def _is43(t):
    data, closes, late = wire_response(t)
    if late or closes < 1 or not well_formed(t):
        return False
    h = data.segs[0]
    return h[0] == 0x34 and h[1] == 0x33 and h[2] == 0x20


def _relay(si, mi, body, n, cut):
    # (contract on the partitioned wrappers)
    # a complete, well-formed upstream response, cleanly closed: relayed byte for byte
    ph, p, t, loop, up = _setup()
    if len(up.conns) != 1:
        return V(False)
    head = STATUS[si] + b" " + METAS[mi] + b"\r\n"
    is2x = STATUS[si][:1] == b"2"
    sent_body = mk(body, Fill(n)) if is2x else mk()
    stream = mk(head) + sent_body
    if cut > len(stream):
        cut = len(stream)
    _feed_upstream(up, loop, stream, cut, 0)
    if up.conns != [("up.example", 1970)]:
        return V(False)                        # exactly one upstream connection: redirects relayed, never followed
    data, closes, late = wire_response(t)
    if late or closes < 1:
        return V(False)
    return V(data.same_as(stream))


def relay_a(si: int, mi: int, body: bytes, n: int, cut: int) -> bool:
    """
    pre: 0 <= si < len(STATUS) and 0 <= mi <= 2
    pre: len(body) == NB and 0 <= n <= 3000 and 0 <= cut <= n + 60
    post: _
    """
    return _relay(si, mi, body, n, cut)


def relay_b(si: int, mi: int, body: bytes, n: int, cut: int) -> bool:
    """
    pre: 0 <= si < len(STATUS) and 3 <= mi <= 5
    pre: len(body) == NB and 0 <= n <= 3000 and 0 <= cut <= n + 60
    post: _
    """
    return _relay(si, mi, body, n, cut)


def relay_c(si: int, mi: int, body: bytes, n: int, cut: int) -> bool:
    """
    pre: 0 <= si < len(STATUS) and 6 <= mi <= 8
    pre: len(body) == NB and 0 <= n <= 3000 and 0 <= cut <= n + 60
    post: _
    """
    return _relay(si, mi, body, n, cut)


S2 = [1, 3, 5, 0, 2, 4, 6, 7]           # indices into STATUS: 20, 31, 51 first (quick tier)
NS2 = pick(3, len(S2))


def relay_twice(s1: int, s2: int, m1: int, m2: int, same_url: bool, f1: int) -> bool:
    """
    pre: 0 <= s1 < NS2 and 0 <= s2 < NS2 and 0 <= m1 <= 1 and 0 <= m2 <= 1
    pre: 0 <= f1 <= 2
    post: _
    """
    # the server serves every connection with ONE proxy handler (and its one client object): the second exchange is
    # relayed from what the upstream says THEN, whatever the first one was (a response, a refusal, an early close)
    ph = None
    for k, (si, mi) in enumerate(((S2[s1], m1), (S2[s2], m2))):
        fault = None
        if k == 0 and f1 == 1:
            fault = REFUSE
        ph, p, t, loop, up = _setup(fault, ph, b"/doc?x=1" if (same_url or k == 0) else b"/other")
        if fault is not None:
            loop.run_ready()
            if not _is43(t):
                return V(False)
            continue
        if len(up.conns) != 1:
            return V(False)
        head = STATUS[si] + b" " + METAS[[0, 4][mi]] + b"\r\n"
        body = (b"first" if k == 0 else b"second-body") if STATUS[si][:1] == b"2" else b""
        stream = mk(head, body)
        if k == 0 and f1 == 2:
            part, _ = stream.cut(4)
            _feed_upstream(up, loop, part, 0, 0)            # the upstream dies inside the header
            if not _is43(t):
                return V(False)
            continue
        _feed_upstream(up, loop, stream, 5, 0)
        data, closes, late = wire_response(t)
        if late or closes < 1 or not data.same_as(stream):
            return V(False)
    return V(True)


def faults(kind: int, si: int, n: int, at: int) -> bool:
    """
    pre: 0 <= kind <= 4 and 0 <= si < len(STATUS) and 0 <= n <= 2000 and 0 <= at <= n + 40
    post: _
    """
    ph, p, t, loop, up = _setup(kind if kind in (REFUSE, TLSFAIL) else None)
    if kind in (REFUSE, TLSFAIL):
        loop.run_ready()
        return V(_is43(t) and len(up.conns) == 1)
    head = STATUS[si] + b" text/gemini\r\n"
    is2x = STATUS[si][:1] == b"2"
    stream = mk(head, Fill(n)) if is2x else mk(head)
    if at > len(stream):
        at = len(stream)
    part, _ = stream.cut(at)
    complete_header = at >= len(head)
    _feed_upstream(up, loop, part, 0, {CLOSE_EARLY: 0, RESET: 1, STALL: 2}[kind])
    data, closes, late = wire_response(t)
    if late or closes < 1 or not well_formed(t):
        return V(False)
    if kind == CLOSE_EARLY:
        if not complete_header:
            return V(_is43(t))
        # the upstream closed after a complete header: what arrived is the (possibly shorter) response -- relayed as is
        return V(data.same_as(part) or _is43(t))
    if not is2x and complete_header:
        # a complete non-2x header needs no body: the proxy may already have relayed it
        return V(data.same_as(mk(head)) or _is43(t))
    return V(_is43(t))


def malformed(bi: int, cut: int) -> bool:
    """
    pre: 0 <= bi < len(BAD_HEADERS) and 0 <= cut <= 20
    post: _
    """
    ph, p, t, loop, up = _setup()
    stream = mk(BAD_HEADERS[bi], b"body")
    if cut > len(stream):
        cut = len(stream)
    _feed_upstream(up, loop, stream, cut, 0)
    return V(_is43(t))


def oversized(n: int, cut: int) -> bool:
    """
    pre: CAP - 10 <= n <= CAP + 5000 and 0 <= cut <= n
    post: _
    """
    ph, p, t, loop, up = _setup()
    head = b"20 application/octet-stream\r\n"
    stream = mk(head, Fill(n))
    _feed_upstream(up, loop, stream, len(head) + cut, 0)
    if n > CAP:
        return V(_is43(t))
    data, closes, late = wire_response(t)
    return V(late == 0 and closes >= 1 and data.same_as(stream))


def downstream_gone(si: int, when: int) -> bool:
    """
    pre: 0 <= si < len(STATUS) and 0 <= when <= 1
    post: _
    """
    # the downstream client disconnects before (0) or while (1) the upstream answers: nothing is written afterwards
    ph, p, t, loop, up = _setup()
    if when == 0:
        p.connection_lost(None)
    n0 = len(t.events)
    stream = mk(STATUS[si] + b" text/gemini\r\n", b"hello" if STATUS[si][:1] == b"2" else b"")
    a, b = stream.cut(4)
    up.proto.data_received(a)
    if when == 1:
        p.connection_lost(None)
        n0 = len(t.events)
    if not up.t.closed:
        up.proto.data_received(b)
    up.proto.connection_lost(None)
    loop.run_ready()
    return V(len(t.events) == n0)


NB = pick(1, 2)

META = {
    "files": ["src/nauyaca/server/proxy.py", "src/nauyaca/client/protocol.py", "src/nauyaca/client/session.py",
              "src/nauyaca/server/protocol.py"],
    "level": "model_checking",
    "explanation": ("Bounded symbolic execution of the whole relay path composed of real code: scripted upstream bytes -> real "
                    "GeminiClientProtocol -> real GeminiClient._get_single -> real ProxyHandler._handle_async -> real "
                    "_route_request/_handle_async_handler_result/_send_response -> recording downstream transport. Upstream "
                    "status, meta (incl. declared charsets), 1..2 symbolic body bytes plus a body of symbolic length, the cut "
                    "offset, the fault kind and the offset at which the upstream dies are solver-chosen."),
    "assumptions": [
        "MiniLoop virtual time for the location timeout; create_connection replaced by a scripted connector (refusal and TLS failure "
        "are exceptions of the documented types)",
        "upstream metas containing bare CR/LF or longer than 1024 bytes are malformed: outside (43 or a sanitised relay are both acceptable)",
    ],
    "trusted": ["CrossHair 0.0.110 / z3 5.1", "asyncio transport contract"],
}
FN = ["ProxyHandler.handle", "_handle_async", "GeminiClient.get", "_get_single", "GeminiClientProtocol.data_received",
      "_parse_header", "connection_lost", "GeminiServerProtocol._route_request", "_handle_async_handler_result", "_send_response"]
ST = ["scripted upstream connector", "FakeTransport x2", "MiniLoop (virtual clock)", "SymBuf"]
OBLIGATIONS = [
    Ob("relay_a", relay_a, quick=600, thorough=2400,
       symbolic="upstream status (8), meta in {text/gemini | charset=iso-8859-1 | charset=utf-16}, 1 (quick) / 2 (thorough) unconstrained body bytes + 0..3000 filler bytes, cut offset",
       functions=FN, stubs=ST),
    Ob("relay_b", relay_b, quick=600, thorough=2400,
       symbolic="upstream status (8), meta in {unknown charset | application/octet-stream | empty meta}, 1 (quick) / 2 (thorough) unconstrained body bytes + 0..3000 filler bytes, cut offset",
       functions=FN, stubs=ST),
    Ob("relay_c", relay_c, quick=600, thorough=2400,
       symbolic="upstream status (8), meta in {lang parameter | upper-case latin-1 | redirect target}, 1 (quick) / 2 (thorough) unconstrained body bytes + 0..3000 filler bytes, cut offset",
       functions=FN, stubs=ST),
    Ob("relay_twice", relay_twice, quick=400, thorough=1500,
       symbolic="two consecutive exchanges through ONE ProxyHandler: status (3 x 3 quick / 8 x 8), meta (2 x 2), same or different URL, the first one "
                "answered / refused / cut inside the header",
       functions=FN, stubs=ST),
    Ob("faults", faults, quick=600, thorough=1800,
       symbolic="fault kind (refuse, TLS failure, close early, reset, stall past the timeout), status, body length, offset at which the upstream dies",
       functions=FN, stubs=ST),
    Ob("malformed", malformed, quick=300, thorough=900,
       symbolic="7 malformed headers (1 or 3 digit status, letters, out of range, empty, invalid UTF-8, leading space), cut offset",
       functions=FN, stubs=ST),
    Ob("oversized", oversized, quick=200, thorough=600,
       symbolic="body length around the 10 MiB cap (cap-10 .. cap+5000), cut offset", functions=FN, stubs=ST),
    Ob("downstream_gone", downstream_gone, quick=200, thorough=600,
       symbolic="status, moment of the downstream disconnect (before / while the upstream answers)", functions=FN, stubs=ST),
]
